#!/usr/bin/env python3
"""Regenerate seeded/INDEX.md from seeded/*/meta.json."""
import json, glob, os
rows, nd, asis = [], [], 0
for m in sorted(glob.glob("/verif/seeded/*/meta.json")):
    d = json.load(open(m))
    det = []
    for p, v in d.get("detected_by", {}).items():
        if v.get("exit") == 1:
            sig = [l.strip() for l in v.get("violations", []) if l.startswith("  verif")]
            det.append(f"{p}: " + "; ".join(s.rstrip(": ") for s in sig[:2]))
    if not d.get("detected"):
        nd.append(d["seed"])
    note = d.get("note", "")
    if d.get("detected") and note.startswith("detected by the checks as they were"):
        asis += 1
    rows.append(f"| {d['seed']} | {d['property']} | {'yes' if d.get('confirmed') else 'NO'} | {'; '.join(det) if det else 'not detected'} | {d.get('needs','')} | {note} |")
head = open("/verif/seeded/INDEX.md").read().split("| seed |")[0]
out = head + "| seed | property | confirmed | detected by (quick tier) | needs | history |\n|---|---|---|---|---|---|\n" + "\n".join(rows) + "\n\n"
out += f"{len(rows)} seeds, {len(rows)-len(nd)} detected ({asis} of them by the checks as they stood when the seed arrived); not detected: {', '.join(nd) if nd else 'none'}.\n"
open("/verif/seeded/INDEX.md", "w").write(out)
print(out.splitlines()[-1])
