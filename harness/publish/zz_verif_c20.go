package publish

import (
	"context"
	"encoding/base64"
	"errors"
)

// C20: PublishECH changes exactly the ech parameter of exactly the requested records.

var errVAPI = errors.New("verif: injected API failure")

type vRec struct {
	zone, name, id string
	value          string
}

type vPatch struct {
	zoneID, recordID string
	value            string
}

// vParam builds one service parameter: a known shape or a few symbolic bytes
// over a small alphabet (no spaces inside a parameter).
func vParam(allowEch, allowFree bool) string {
	k := 2
	if allowFree {
		k = 3
	}
	switch vInt(0, k) {
	case 0:
		return `alpn="h2"`
	case 1:
		return "port=443"
	case 2:
		if allowEch {
			if vBool() {
				return `ech="AAEC"`
			}
			return "ech=AAEC"
		}
		return "ipv4hint=1.2.3.4"
	}
	// free-form parameter: symbolic bytes over the alphabet {e,c,h,=,",a,1}
	n := vInt(1, 3+vTier())
	b := vBytes(n)
	for _, c := range b {
		vAssume(c == 'e' || c == 'c' || c == 'h' || c == '=' || c == '"' || c == 'a' || c == '1')
	}
	return string(b)
}

func vSplit(s string) []string {
	var out []string
	start := 0
	for i := 0; i <= len(s); i++ {
		if i == len(s) || s[i] == ' ' {
			out = append(out, s[start:i])
			start = i + 1
		}
	}
	return out
}

func vIsEch(p string) bool { return len(p) >= 4 && p[:4] == "ech=" }

// verifC20Publish: <= 3 requested targets over a zone table of <= 2 records
// whose values are <= 3 parameters; each API call may fail.
func verifC20Publish() {
	table := []vRec{}
	nrec := vInt(1, 2)
	for i := 0; i < nrec; i++ {
		np := vInt(0, 2)

		val := ""
		hasEch := false
		if i == 1 {
			// the second record is fixed (a stale ech entry between two parameters)
			np = 0
			val = `alpn="h2" ech="T0xE" port=8443`
		}
		for j := 0; j < np; j++ {
			p := vParam(true, j == 0)
			_ = hasEch // (several ech entries may occur: "arbitrary parameter strings")
			if j > 0 {
				val += " "
			}
			val += p
		}
		table = append(table, vRec{zone: "z1", name: []string{"n1", "n2"}[i], id: []string{"r1", "r2"}[i], value: val})
	}
	failZone := false
	failPatchAt := -1
	switch vInt(0, 2) { // fault: none, zone listing fails, first PATCH fails
	case 1:
		failZone = true
	case 2:
		failPatchAt = 0
	}
	var patches []vPatch
	zoneCalls := 0
	VerifHook_getZoneData = func(cf *CloudflarePublisher, ctx context.Context, zone string, data map[zoneName]idData) error {
		zoneCalls++
		if zone != "z1" {
			return errNotFound
		}
		if failZone {
			return errVAPI
		}
		for _, r := range table {
			data[zoneName{r.zone, r.name}] = idData{ZoneID: "Z1", RecordID: r.id, Data: httpsData{Priority: 1, Target: ".", Value: r.value}}
		}
		return nil
	}
	VerifHook_updateRecord = func(cf *CloudflarePublisher, ctx context.Context, zoneID, recordID string, data httpsData) error {
		idx := len(patches)
		patches = append(patches, vPatch{zoneID, recordID, data.Value})
		if idx == failPatchAt {
			return errVAPI
		}
		return nil
	}
	cl := []byte{0, 1, 2} // contents are irrelevant to the property (base64 is table-driven); "AAEC"
	want64 := base64.StdEncoding.EncodeToString(cl)
	nt := vInt(1, 2)
	var targets []Target
	for i := 0; i < nt; i++ {
		if i == 1 && vTier() == 0 {
			// quick tier: the second target is a duplicate of the first or the other record
			if vBool() {
				targets = append(targets, targets[0])
			} else {
				targets = append(targets, Target{Zone: "z1", Name: "n2"})
			}
			continue
		}
		targets = append(targets, Target{Zone: []string{"z1", "zX"}[vInt(0, 1)], Name: []string{"n1", "n2", "missing"}[vInt(0, 2)]})
	}
	cf := &CloudflarePublisher{zoneIDs: map[string]string{}}
	results := cf.PublishECH(context.Background(), targets, cl)
	vAssert(len(results) == len(targets), "exactly one result per requested record")
	pi := 0
	for i, tg := range targets {
		if i >= len(results) {
			break
		}
		res := results[i]
		var rec *vRec
		for k := range table {
			if table[k].zone == tg.Zone && table[k].name == tg.Name {
				rec = &table[k]
			}
		}
		switch {
		case tg.Zone != "z1":
			vAssert(res.Code == StatusNotFound, "unknown zone: not found")
		case failZone:
			// the zone listing is attempted once; later targets of the zone find nothing
			vAssert(res.Code == StatusError || res.Code == StatusNotFound, "zone listing failed: error or not found")
		case rec == nil:
			vAssert(res.Code == StatusNotFound, "missing record: not found")
		default:
			// reference: split on single spaces, drop the ech entry, append the new one
			toks := vSplit(rec.value)
			var keep []string
			old := ""
			nOld := 0
			for _, t := range toks {
				if vIsEch(t) {
					old = t[4:]
					for len(old) > 0 && old[0] == '"' {
						old = old[1:]
					}
					for len(old) > 0 && old[len(old)-1] == '"' {
						old = old[:len(old)-1]
					}
					nOld++
					continue
				}
				keep = append(keep, t)
			}
			if nOld == 1 && old == want64 {
				vAssert(res.Code == StatusNoChange, "published value already current: no change")
				continue
			}
			vAssert(pi < len(patches), "an existing record with a stale value is patched")
			if pi < len(patches) {
				p := patches[pi]
				vAssert(p.zoneID == "Z1" && p.recordID == rec.id, "the patch names the requested record only")
				got := vSplit(p.value)
				nEch := 0
				for _, t := range got {
					if vIsEch(t) {
						nEch++
						vAssert(t == `ech="`+want64+`"`, "the ech entry is the base64 of the config list")
					}
				}
				vAssert(nEch == 1, "exactly one ech entry afterwards")
				var others []string
				for _, t := range got {
					if !vIsEch(t) {
						others = append(others, t)
					}
				}
				vAssert(len(others) == len(keep), "other parameters preserved")
				for k := range others {
					if k < len(keep) {
						vAssert(others[k] == keep[k], "other parameters preserved in order")
					}
				}
				if pi == failPatchAt {
					vAssert(res.Code == StatusError, "failed patch reported as error")
				} else {
					vAssert(res.Code == StatusUpdated, "patched record reported as updated")
				}
			}
			pi++
		}
	}
	vAssert(pi == len(patches), "no write other than those for requested stale records")
	vReach("published")
	// second publish of the same list after the successful PATCHes were stored:
	// nothing is current-but-rewritten, nothing else is touched
	if failPatchAt < 0 && !failZone {
		for _, p := range patches {
			for k := range table {
				if table[k].id == p.recordID {
					table[k].value = p.value
				}
			}
		}
		before := len(patches)
		res2 := cf.PublishECH(context.Background(), targets, cl)
		vAssert(len(res2) == len(targets), "second publish: one result per record")
		vAssert(len(patches) == before, "second publish of a current value performs no write")
		for i, tg := range targets {
			if i < len(res2) && tg.Zone == "z1" && tg.Name != "missing" && (tg.Name == "n1" || nrec == 2) {
				vAssert(res2[i].Code == StatusNoChange, "second publish: no change")
			}
		}
		vReach("republished")
	}
}
