package publish

import (
	"context"
	"encoding/base64"
	"errors"
)

// C20: PublishECH changes exactly the ech parameter of exactly the requested records.

var errVAPI = errors.New("verif: injected API failure")

// vCur64 is the standard (padded) base64 of the config list being published.
var vCur64 = "AAEC"

type vRec struct {
	zone, name, id string
	value          string
	zoneID         string
	prio           int
	target         string
}

type vPatch struct {
	zoneID, recordID string
	value            string
	prio             int
	target           string
}

// vParam builds one service parameter: a known shape or a few symbolic bytes
// over a small alphabet (no spaces inside a parameter).
func vParam(allowEch, allowFree bool) string {
	k := 2
	if allowFree {
		k = 3
	}
	switch vInt(0, k) {
	case 0:
		return `alpn="h2"`
	case 1:
		return "port=443"
	case 2:
		if allowEch {
			switch vInt(0, 3) {
			case 0:
				return `ech="` + vCur64 + `"`
			case 1:
				return "ech=" + vCur64
			case 2: // another spelling that decodes to the same bytes is NOT the current value: padding dropped or added
				if vCur64[len(vCur64)-1] == '=' {
					return `ech="` + vCur64[:len(vCur64)-1] + `"`
				}
				return `ech="` + vCur64 + `="`
			}
			// the URL-safe alphabet
			u := []byte(vCur64)
			for i := range u {
				if u[i] == '+' {
					u[i] = '-'
				} else if u[i] == '/' {
					u[i] = '_'
				}
			}
			return `ech="` + string(u) + `"`
		}
		return "ipv4hint=1.2.3.4"
	}
	if vTier() > 0 && vBool() {
		// the key "ech" followed by one free byte ('=' makes it an ech entry with an empty value)
		c := vByte()
		vAssume(c == 'e' || c == 'c' || c == 'h' || c == '=' || c == '"' || c == 'a' || c == '1')
		return "ech" + string([]byte{c})
	}
	// free-form parameter: symbolic bytes over the alphabet {e,c,h,=,",a,1}
	n := vInt(1, 2)
	b := vBytes(n)
	for _, c := range b {
		vAssume(c == 'e' || c == 'c' || c == 'h' || c == '=' || c == '"' || c == 'a' || c == '1')
	}
	return string(b)
}

func vSplit(s string) []string {
	var out []string
	start := 0
	for i := 0; i <= len(s); i++ {
		if i == len(s) || s[i] == ' ' {
			out = append(out, s[start:i])
			start = i + 1
		}
	}
	return out
}

func vIsEch(p string) bool { return len(p) >= 4 && p[:4] == "ech=" }

// verifC20Publish: <= 3 requested targets over a zone table of <= 2 records
// whose values are <= 3 parameters; each API call may fail.
var vC20Retried bool

func vReachedRetry() bool { return vC20Retried }

func verifC20Publish() {
	vC20Retried = false
	// the config list: its standard base64 has no padding, one or two padding characters, and '+' / '/'
	cl := [][]byte{{0, 1, 2}, {0xfb, 0xff}, {0xfb}}[vInt(0, 2)]
	vCur64 = base64.StdEncoding.EncodeToString(cl)
	vAssert(vCur64 == "AAEC" || vCur64 == "+/8=" || vCur64 == "+w==", "reference base64")
	table := []vRec{}
	nrec := vInt(1, 2)
	for i := 0; i < nrec; i++ {
		np := vInt(0, 2)

		val := ""
		hasEch := false
		if i == 1 {
			// the second record is fixed (a stale ech entry between two parameters)
			np = 0
			val = `alpn="h2" ech="T0xE" port=8443`
		}
		for j := 0; j < np; j++ {
			p := vParam(true, j == 0)
			_ = hasEch // (several ech entries may occur: "arbitrary parameter strings")
			if j > 0 {
				val += " "
			}
			val += p
		}
		table = append(table, vRec{zone: "z1", name: []string{"n1", "n2"}[i], id: []string{"r1", "r2"}[i], value: val,
			zoneID: "Z1", prio: i + 1, target: []string{".", "svc.example."}[i]})
	}
	// a second zone holds a record of the same name
	table = append(table, vRec{zone: "z2", name: "n1", id: "r9", value: `alpn="h3"`, zoneID: "Z2", prio: 3, target: "."})
	failZone := false
	failPatchAt := -1
	switch vInt(0, 2) { // fault: none, zone listing fails, first PATCH fails
	case 1:
		failZone = true
	case 2:
		failPatchAt = 0
	}
	var patches []vPatch
	zoneCalls := 0
	VerifHook_getZoneData = func(cf *CloudflarePublisher, ctx context.Context, zone string, data map[zoneName]idData) error {
		zoneCalls++
		if zone != "z1" && zone != "z2" {
			return errNotFound
		}
		if failZone && zone == "z1" {
			return errVAPI
		}
		for _, r := range table {
			if r.zone == zone {
				data[zoneName{r.zone, r.name}] = idData{ZoneID: r.zoneID, RecordID: r.id, Data: httpsData{Priority: r.prio, Target: r.target, Value: r.value}}
			}
		}
		return nil
	}
	VerifHook_updateRecord = func(cf *CloudflarePublisher, ctx context.Context, zoneID, recordID string, data httpsData) error {
		idx := len(patches)
		patches = append(patches, vPatch{zoneID, recordID, data.Value, data.Priority, data.Target})
		if idx == failPatchAt {
			return errVAPI
		}
		return nil
	}
	want64 := vCur64
	nt := vInt(1, 2)
	var targets []Target
	for i := 0; i < nt; i++ {
		if i == 1 && vTier() == 0 {
			// quick tier: the second target is a duplicate of the first or the other record
			switch vInt(0, 2) {
			case 0:
				targets = append(targets, targets[0])
			case 1:
				targets = append(targets, Target{Zone: "z1", Name: "n2"})
			case 2:
				targets = append(targets, Target{Zone: "z2", Name: "n1"})
			}
			continue
		}
		targets = append(targets, Target{Zone: []string{"z1", "zX", "z2"}[vInt(0, 1+vTier())], Name: []string{"n1", "n2", "missing"}[vInt(0, 2)]})
	}
	cf := &CloudflarePublisher{zoneIDs: map[string]string{}}
	results := cf.PublishECH(context.Background(), targets, cl)
	vAssert(len(results) == len(targets), "exactly one result per requested record")
	pi := 0
	written := map[string]string{} // record -> value stored by a successful write earlier in this call
	for i, tg := range targets {
		if i >= len(results) {
			break
		}
		res := results[i]
		var rec *vRec
		for k := range table {
			if table[k].zone == tg.Zone && table[k].name == tg.Name {
				rec = &table[k]
			}
		}
		if res.Code != StatusError {
			vAssert(res.Error == nil, "an error is attached to error results only")
		}
		// what callers act on: Err() is nil exactly for updated / unchanged records and carries the API failure otherwise
		vAssert((res.Err() == nil) == (res.Code == StatusUpdated || res.Code == StatusNoChange), "Err() reports success exactly for updated and unchanged records")
		if res.Code == StatusError {
			vAssert(errors.Is(res.Err(), errVAPI), "Err() of an error result wraps the API failure")
		}
		switch {
		case tg.Zone != "z1" && tg.Zone != "z2":
			vAssert(res.Code == StatusNotFound, "unknown zone: not found")
		case failZone && tg.Zone == "z1":
			// the zone listing is attempted once: its failure is reported for the first target of
			// the zone; later targets of the zone find nothing
			first := true
			for _, prev := range targets[:i] {
				if prev.Zone == "z1" {
					first = false
				}
			}
			if first {
				vAssert(res.Code == StatusError && errors.Is(res.Error, errVAPI), "a failing zone listing is reported as an error carrying the API failure")
			} else {
				vAssert(res.Code == StatusNotFound, "after a failed listing later targets of the zone are not found")
			}
		case rec == nil:
			vAssert(res.Code == StatusNotFound, "missing record: not found")
		default:
			// reference: split on single spaces, drop the ech entry, append the new one
			value := rec.value
			if v, ok := written[rec.zoneID+"/"+rec.id]; ok {
				value = v // an earlier target of this call already rewrote the record
			}
			toks := vSplit(value)
			var keep []string
			old := ""
			nOld := 0
			for _, t := range toks {
				if vIsEch(t) {
					old = t[4:]
					for len(old) > 0 && old[0] == '"' {
						old = old[1:]
					}
					for len(old) > 0 && old[len(old)-1] == '"' {
						old = old[:len(old)-1]
					}
					nOld++
					continue
				}
				keep = append(keep, t)
			}
			if nOld == 1 && old == want64 {
				vAssert(res.Code == StatusNoChange, "published value already current: no change")
				continue
			}
			vAssert(pi < len(patches), "an existing record with a stale value is patched")
			if pi < len(patches) {
				p := patches[pi]
				vAssert(p.zoneID == rec.zoneID && p.recordID == rec.id, "the patch names the requested record only, in its own zone")
				vAssert(p.prio == rec.prio && p.target == rec.target, "priority and target of the record are written back unchanged")
				got := vSplit(p.value)
				nEch := 0
				for _, t := range got {
					if vIsEch(t) {
						nEch++
						vAssert(t == `ech="`+want64+`"`, "the ech entry is the base64 of the config list")
					}
				}
				vAssert(nEch == 1, "exactly one ech entry afterwards")
				var others []string
				for _, t := range got {
					if !vIsEch(t) {
						others = append(others, t)
					}
				}
				vAssert(len(others) == len(keep), "other parameters preserved")
				for k := range others {
					if k < len(keep) {
						vAssert(others[k] == keep[k], "other parameters preserved in order")
					}
				}
				if pi != failPatchAt {
					written[rec.zoneID+"/"+rec.id] = p.value
				}
				if pi == failPatchAt {
					vAssert(res.Code == StatusError && errors.Is(res.Error, errVAPI), "failed patch reported as an error carrying the API failure")
				} else {
					vAssert(res.Code == StatusUpdated, "patched record reported as updated")
				}
			}
			pi++
		}
	}
	vAssert(pi == len(patches), "no write other than those for requested stale records")
	distinct := map[string]bool{}
	for _, tg := range targets {
		distinct[tg.Zone] = true
	}
	vAssert(zoneCalls <= len(distinct), "each zone is listed at most once per call")
	vReach("published")
	// second publish of the same list after the successful PATCHes were stored:
	// nothing is current-but-rewritten, nothing else is touched
	if failPatchAt == 0 && len(patches) > 0 {
		// the write that failed was not stored: publishing the same list again writes that record again
		failPatchAt = -1
		failed := patches[0]
		for _, p := range patches[1:] {
			for k := range table {
				if table[k].id == p.recordID && table[k].zoneID == p.zoneID {
					table[k].value = p.value
				}
			}
		}
		before := len(patches)
		res2 := cf.PublishECH(context.Background(), targets, cl)
		again := false
		for _, p := range patches[before:] {
			again = again || (p.recordID == failed.recordID && p.zoneID == failed.zoneID && p.value == failed.value)
		}
		laterOK := false // (a duplicate target may have rewritten the same record successfully in the first call)
		for _, p := range patches[1:before] {
			laterOK = laterOK || (p.recordID == failed.recordID && p.zoneID == failed.zoneID)
		}
		vAssert(len(res2) == len(targets) && (again || laterOK), "after a failed write the next publish writes that record again (nothing is remembered as done)")
		vReach("retried-after-failure")
		vC20Retried = true
	}
	if failPatchAt < 0 && !failZone && len(patches) >= 0 && vReachedRetry() == false {
		for _, p := range patches {
			for k := range table {
				if table[k].id == p.recordID {
					table[k].value = p.value
				}
			}
		}
		before := len(patches)
		res2 := cf.PublishECH(context.Background(), targets, cl)
		vAssert(len(res2) == len(targets), "second publish: one result per record")
		vAssert(len(patches) == before, "second publish of a current value performs no write")
		for i, tg := range targets {
			if i < len(res2) && ((tg.Zone == "z1" && tg.Name != "missing" && (tg.Name == "n1" || nrec == 2)) || (tg.Zone == "z2" && tg.Name == "n1")) {
				vAssert(res2[i].Code == StatusNoChange, "second publish: no change")
			}
		}
		vReach("republished")
	}
}
