package ech

import "context"

// C02: ECH is accepted only for an authentic payload bound to the exact outer hello.

// vC02Honest builds one honest tuple: key, suite, outer hello (SNI, versions,
// key_share-like free extension before and after the ECH extension), inner hello.
func vC02Honest() (vKeyCfg, vSealed) {
	name := []byte("pub.example")
	k := vMakeKey(0, vByte(), [][2]uint16{{1, 1}, {1, 3}}, name)
	suite := k.suites[vInt(0, 1)]
	outer := vHello{version: 0x0303, random: vBytes(32), sid: vBytes(2), suites: []byte{0x13, 0x01}, comp: []byte{0}}
	outer.exts = []vExt{vSNI(name), vVersions(0x0304), {51, vBytes(2)}, {0xfe0d, nil}, {10, vBytes(1)}}
	inner := vHello{version: 0x0303, random: vBytes(32), suites: []byte{0x13, 0x02}, comp: []byte{0},
		exts: []vExt{vSNI(vBytes(2)), vECHInner(), vVersions(0x0304)}}
	return k, vSeal(k, suite[0], suite[1], outer, 3, vEncodeInner(inner, 1))
}

// verifC02Flip: one byte of the ClientHelloOuter handshake message, at any
// position, xored with any non-zero value: never accepted.
func verifC02Flip() {
	k, s := vC02Honest()
	rec := s.outer.record()
	p := vInt(5, len(rec)-1)
	d := vByte()
	vAssume(d != 0)
	old := rec[p]
	rec[p] ^= d
	// Bound: a flipped length byte can re-frame the rest of the hello over ~110
	// symbolic ciphertext bytes, which asks for the raw parse of that many free
	// bytes (x13 paths per 4 free bytes; bounded separately by C05/C08).  Paths that
	// take more than two lengths from ciphertext bytes are cut and counted.
	vLimitCiphertextLengths(1)
	for _, lp := range vLengthPositions(s.outer) {
		if p == lp {
			if vTier() > 0 {
				vAssume(rec[p] <= old+3) // thorough: shrink to anything, grow by at most 3
			} else {
				vAssume(rec[p] == old+1 || rec[p] == old-1) // quick: off by one
			}
		}
	}
	c, err := NewConn(context.Background(), newVTransport(rec), WithKeys([]Key{k.key()}))
	vReach("ran")
	vAssert(err != nil || !c.ECHAccepted(), "a modified outer hello is never accepted")
}

// verifC02Honest: the unmodified hello is accepted (non-vacuity of the above),
// also when only the record-layer version differs.
func verifC02Honest() {
	k, s := vC02Honest()
	rec := s.outer.record()
	rec[1], rec[2] = vByte(), vByte()
	c, err := NewConn(context.Background(), newVTransport(rec), WithKeys([]Key{k.key()}))
	vAssert(err == nil && c.ECHAccepted() && c.ECHPresented(), "the honest hello is accepted")
	vReach("accepted")
}

// verifC02Subst: field-level substitutions with consistent lengths.
func verifC02Subst() {
	k, s := vC02Honest()
	o := s.outer
	exts := make([]vExt, len(o.exts))
	copy(exts, o.exts)
	o.exts = exts
	keys := []Key{k.key()}
	kind := vInt(0, 11)
	var rec []byte
	switch kind {
	case 0: // other config id
		id := vByte()
		vAssume(id != s.id)
		o.exts[3] = vECHOuter(s.kdf, s.aead, id, s.enc, s.payload)
	case 1: // other suite (symbolic)
		kdf, aead := vUint16(), vUint16()
		vAssume(kdf != s.kdf || aead != s.aead)
		o.exts[3] = vECHOuter(kdf, aead, s.id, s.enc, s.payload)
	case 2: // enc truncated or extended
		n := vInt(0, 33)
		vAssume(n != 32)
		enc := vCat(s.enc, []byte{vByte()})[:n]
		o.exts[3] = vECHOuter(s.kdf, s.aead, s.id, enc, s.payload)
	case 3: // payload truncated
		n := vInt(1, len(s.payload)-1)
		o.exts[3] = vECHOuter(s.kdf, s.aead, s.id, s.enc, s.payload[:n])
	case 4: // payload extended
		o.exts[3] = vECHOuter(s.kdf, s.aead, s.id, s.enc, vCat(s.payload, vBytes(vInt(1, 2))))
	case 5: // the server does not hold the key: another key under the same id and suites
		other := vMakeKey(1, k.id, k.suites, k.name)
		keys = []Key{other.key()}
	case 6: // right private key under a config that differs in one byte (info string differs)
		cfg := append([]byte{}, k.config...)
		p := vInt(0, len(cfg)-1)
		d := vByte()
		vAssume(d != 0)
		cfg[p] ^= d
		keys = []Key{{Config: cfg, PrivateKey: k.priv}}
	case 7: // an extension of the outer hello replaced by one with other contents
		e := vBytes(2)
		vAssume(e[0] != o.exts[2].data[0] || e[1] != o.exts[2].data[1])
		o.exts[2] = vExt{51, e}
	case 8: // bytes appended after the extension block, inside the handshake message (lengths consistent)
		rec = vRecord(22, 0x0301, vHandshake(vCat(o.body(), vBytes(vInt(1, 2)))))
	case 9: // bytes appended after the handshake message, inside the record
		rec = vRecord(22, 0x0301, vCat(vHandshake(o.body()), vBytes(vInt(1, 2))))
	case 10: // an extension inserted (padding, GREASE or unknown type) at any position
		ins := []vExt{{21, vBytes(vInt(0, 2))}, {0x0a0a, nil}, {0x1234, vBytes(1)}}[vInt(0, 2)]
		at := vInt(0, len(o.exts))
		o.exts = append(append(append([]vExt{}, o.exts[:at]...), ins), o.exts[at:]...)
	case 11: // a byte appended inside the ECH extension, after the payload
		o.exts[3] = vExt{0xfe0d, vCat(o.exts[3].data, vBytes(1))}
	}
	if rec == nil {
		rec = o.record()
	}
	c, err := NewConn(context.Background(), newVTransport(rec), WithKeys(keys))
	vReach("ran")
	vAssert(err != nil || !c.ECHAccepted(), "a substituted field never leads to acceptance")
}

// vLengthPositions lists the record offsets of every length byte of the hello
// as laid out by the reference builder.
func vLengthPositions(h vHello) []int {
	var out []int
	o := 5 + 4 + 2 + 32
	out = append(out, o) // session id length
	o += 1 + len(h.sid)
	out = append(out, o, o+1) // cipher suites length
	o += 2 + len(h.suites)
	out = append(out, o) // compression methods length
	o += 1 + len(h.comp)
	out = append(out, o, o+1) // extension block length
	o += 2
	for _, e := range h.exts {
		out = append(out, o+2, o+3)
		d := o + 4
		switch e.typ {
		case 0:
			out = append(out, d, d+1, d+3, d+4)
		case 16:
			out = append(out, d, d+1, d+2)
		case 43:
			out = append(out, d)
		case 0xfe0d:
			if len(e.data) > 8 {
				encLen := int(e.data[6])<<8 | int(e.data[7])
				out = append(out, d+6, d+7, d+8+encLen, d+9+encLen)
			}
		}
		o += 4 + len(e.data)
	}
	return out
}

// verifC02UnlistedSuite: a payload sealed correctly, but under a cipher suite that
// the key's config does not list, is never accepted (the client may only use
// suites the config offers).
func verifC02UnlistedSuite() {
	name := []byte("pub.example")
	listed := [][2]uint16{{1, 1}}
	if vBool() {
		listed = [][2]uint16{{1, 3}, {1, 2}}
	}
	k := vMakeKey(0, vByte(), listed, name)
	use := [][2]uint16{{1, 1}, {1, 2}, {1, 3}}[vInt(0, 2)]
	isListed := false
	for _, l := range listed {
		if l == use {
			isListed = true
		}
	}
	outer := vHello{version: 0x0303, random: vBytes(32), sid: vBytes(1), suites: []byte{0x13, 0x01}, comp: []byte{0}}
	outer.exts = []vExt{vSNI(name), vVersions(0x0304), {0xfe0d, nil}}
	inner := vHello{version: 0x0303, random: vBytes(32), suites: []byte{0x13, 0x02}, comp: []byte{0},
		exts: []vExt{vSNI(vBytes(2)), vECHInner(), vVersions(0x0304)}}
	s := vSeal(k, use[0], use[1], outer, 2, vEncodeInner(inner, 0))
	c, err := NewConn(context.Background(), newVTransport(s.outer.record()), WithKeys([]Key{k.key()}))
	if isListed {
		vAssert(err == nil && c.ECHAccepted(), "a listed suite is accepted")
		vReach("listed")
	} else {
		vAssert(err != nil || !c.ECHAccepted(), "a suite the config does not list is never accepted")
		vReach("unlisted")
	}
}

// verifC02WrongIDSealed: a payload sealed correctly to a key the server holds
// (right info string, AAD over the hello actually sent) but naming a config id
// that is not that key's id is never accepted, whatever other keys are held.
func verifC02WrongIDSealed() {
	name := []byte("pub.example")
	suites := [][2]uint16{{1, 1}}
	k := vMakeKey(0, vByte(), suites, name)
	named := vByte()
	vAssume(named != k.id)
	keys := []Key{k.key()}
	if vBool() {
		keys = append(keys, vMakeKey(1, vByte(), suites, name).key())
	}
	outer := vHello{version: 0x0303, random: vBytes(32), sid: vBytes(1), suites: []byte{0x13, 0x01}, comp: []byte{0}}
	outer.exts = []vExt{vSNI(name), vVersions(0x0304), {0xfe0d, nil}}
	inner := vHello{version: 0x0303, random: vBytes(32), suites: []byte{0x13, 0x02}, comp: []byte{0},
		exts: []vExt{vSNI(vBytes(2)), vECHInner(), vVersions(0x0304)}}
	info := vCat([]byte("tls ech\x00"), k.config)
	enc, h := vHpkeSetupSender(k.priv, k.pub, 1, 1, info)
	s := vSealWith(h, enc, named, 1, 1, outer, 2, vEncodeInner(inner, 0))
	c, err := NewConn(context.Background(), newVTransport(s.outer.record()), WithKeys(keys))
	vAssert(err != nil || !c.ECHAccepted(), "a hello naming a config id other than the key's is never accepted")
	vReach("wrong-id")
}
