package ech

// Smoke harness for engine bring-up.
func verifSmoke() {
	n := vInt(0, 12)
	b := vBytes(n)
	specs, err := ParseConfigList(b)
	vObserve(err == nil, len(specs))
	if err == nil {
		vReach("parsed")
		for _, s := range specs {
			vAssert(s.Version == 0xfe0d, "version")
		}
	} else {
		vReach("rejected")
	}
}
