package ech

// Smoke harness for engine bring-up.
func verifSmoke() {
	n := vInt(0, 12)
	b := vBytes(n)
	specs, err := ParseConfigList(b)
	vObserve(err == nil, len(specs))
	if err == nil {
		vReach("parsed")
		for _, s := range specs {
			vAssert(s.Version == 0xfe0d, "version")
		}
	} else {
		vReach("rejected")
	}
}

func verifSmokeTime() {
	c := int64(vUint32()) + 1_000_000
	ttl := vUint32()
	t0 := timeUnix(c)
	t := t0.Add(timeSecond * timeDuration(ttl))
	vAssert(t.Unix() == c+int64(ttl), "Add of whole seconds")
	vAssert(!t.Before(t0), "not before")
	vAssert(t0.Before(t) == (ttl > 0), "strictly after iff ttl > 0")
	vReach("time")
}

func verifSmokeTLS() {
	h := vHello{version: 0x0303, random: vBytes(32), sid: vBytes(2), suites: []byte{0x13, 0x01}, comp: []byte{0},
		exts: []vExt{vSNI([]byte("a.example")), vALPN([][]byte{[]byte("h2")}), vVersions(0x0304)}}
	ok, sni, alpn := vTLSExtract(h.record())
	vAssert(ok, "crypto/tls parsed the hello")
	vAssert(sni == "a.example" && len(alpn) == 1 && alpn[0] == "h2", "crypto/tls extraction")
	vReach("tls")
}
