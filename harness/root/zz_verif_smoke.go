package ech

// Smoke harness for engine bring-up.
func verifSmoke() {
	n := vInt(0, 12)
	b := vBytes(n)
	specs, err := ParseConfigList(b)
	vObserve(err == nil, len(specs))
	if err == nil {
		vReach("parsed")
		for _, s := range specs {
			vAssert(s.Version == 0xfe0d, "version")
		}
	} else {
		vReach("rejected")
	}
}

func verifSmokeTime() {
	c := int64(vUint32()) + 1_000_000
	ttl := vUint32()
	t0 := timeUnix(c)
	t := t0.Add(timeSecond * timeDuration(ttl))
	vAssert(t.Unix() == c+int64(ttl), "Add of whole seconds")
	vAssert(!t.Before(t0), "not before")
	vAssert(t0.Before(t) == (ttl > 0), "strictly after iff ttl > 0")
	vReach("time")
}
