package ech

import (
	"crypto/tls"
	"errors"
	"io"
	"net"
	"time"
)

// An independent TLS stack as oracle: crypto/tls's server is fed the bytes and
// its ClientHelloInfo is captured through the exported GetConfigForClient hook.

type vOneShotConn struct {
	in   []byte
	rpos int
}

func (c *vOneShotConn) Read(b []byte) (int, error) {
	if c.rpos >= len(c.in) {
		return 0, io.EOF
	}
	n := copy(b, c.in[c.rpos:])
	c.rpos += n
	return n, nil
}
func (c *vOneShotConn) Write(b []byte) (int, error)      { return len(b), nil }
func (c *vOneShotConn) Close() error                     { return nil }
func (c *vOneShotConn) LocalAddr() net.Addr              { return vAddr{} }
func (c *vOneShotConn) RemoteAddr() net.Addr             { return vAddr{} }
func (c *vOneShotConn) SetDeadline(time.Time) error      { return nil }
func (c *vOneShotConn) SetReadDeadline(time.Time) error  { return nil }
func (c *vOneShotConn) SetWriteDeadline(time.Time) error { return nil }

var errVStop = errors.New("verif: stop after ClientHelloInfo")

// vTLSExtract reports whether crypto/tls parses the record as a ClientHello and
// what server name and ALPN list it extracts.
func vTLSExtract(rec []byte) (ok bool, sni string, alpn []string) {
	cfg := &tls.Config{GetConfigForClient: func(chi *tls.ClientHelloInfo) (*tls.Config, error) {
		ok, sni, alpn = true, chi.ServerName, chi.SupportedProtos
		return nil, errVStop
	}}
	srv := tls.Server(&vOneShotConn{in: rec}, cfg)
	_ = srv.Handshake()
	return
}

// vTLSClientTry starts a crypto/tls client handshake with the given ECH config
// list against a peer that says nothing, and classifies the outcome:
// "malformed" (list rejected by the parser), "novalid" (no usable config),
// "other" (the list was accepted; the handshake stopped later).
func vTLSClientTry(list []byte) string {
	cfg := &tls.Config{EncryptedClientHelloConfigList: list, ServerName: "inner.example", MinVersion: tls.VersionTLS13,
		CurvePreferences: []tls.CurveID{tls.X25519}, InsecureSkipVerify: true}
	err := tls.Client(&vOneShotConn{}, cfg).Handshake()
	if err == nil {
		return "other"
	}
	msg := err.Error()
	switch {
	case vContains(msg, "malformed ECHConfigList"), vContains(msg, "malformed"):
		return "malformed"
	case vContains(msg, "contains no valid configs"):
		return "novalid"
	}
	return "other"
}

func vContains(s, sub string) bool {
	for i := 0; i+len(sub) <= len(s); i++ {
		if s[i:i+len(sub)] == sub {
			return true
		}
	}
	return false
}

var vErrStop = errors.New("verif: stop after ECH key processing")

// vTLSServerTry hands crypto/tls's server an ECH key (config + private key) and a
// ClientHello that names the config id, and classifies the outcome: "badconfig" /
// "badkey" when crypto/tls refuses the key material, "other" otherwise (the
// handshake is stopped by GetConfigForClient right after ECH key processing; no
// certificate is configured).
func vTLSServerTry(cfgBytes, priv []byte, id byte) string {
	cfg := &tls.Config{EncryptedClientHelloKeys: []tls.EncryptedClientHelloKey{{Config: cfgBytes, PrivateKey: priv}}, MinVersion: tls.VersionTLS13, SessionTicketsDisabled: true,
		GetConfigForClient: func(*tls.ClientHelloInfo) (*tls.Config, error) { return nil, vErrStop }}
	enc := make([]byte, 32)
	enc[0] = 9
	h := vHello{version: 0x0303, random: make([]byte, 32), sid: make([]byte, 32), suites: []byte{0x13, 0x01}, comp: []byte{0},
		exts: []vExt{vSNI([]byte("pub.example")), vVersions(0x0304), {10, []byte{0, 2, 0, 29}}, {13, []byte{0, 2, 8, 4}},
			{51, vCat([]byte{0, 36, 0, 29, 0, 32}, make([]byte, 32))}, vECHOuter(1, 1, id, enc, make([]byte, 40))}}
	err := tls.Server(&vOneShotConn{in: h.record()}, cfg).Handshake()
	if err == nil {
		return "other"
	}
	msg := err.Error()
	switch {
	case vContains(msg, "invalid EncryptedClientHelloKeys Config"):
		return "badconfig"
	case vContains(msg, "invalid EncryptedClientHelloKeys PrivateKey"):
		return "badkey"
	}
	return "other"
}
