package ech

import (
	"crypto/tls"
	"errors"
	"io"
	"net"
	"time"
)

// An independent TLS stack as oracle: crypto/tls's server is fed the bytes and
// its ClientHelloInfo is captured through the exported GetConfigForClient hook.

type vOneShotConn struct {
	in   []byte
	rpos int
}

func (c *vOneShotConn) Read(b []byte) (int, error) {
	if c.rpos >= len(c.in) {
		return 0, io.EOF
	}
	n := copy(b, c.in[c.rpos:])
	c.rpos += n
	return n, nil
}
func (c *vOneShotConn) Write(b []byte) (int, error)      { return len(b), nil }
func (c *vOneShotConn) Close() error                     { return nil }
func (c *vOneShotConn) LocalAddr() net.Addr              { return vAddr{} }
func (c *vOneShotConn) RemoteAddr() net.Addr             { return vAddr{} }
func (c *vOneShotConn) SetDeadline(time.Time) error      { return nil }
func (c *vOneShotConn) SetReadDeadline(time.Time) error  { return nil }
func (c *vOneShotConn) SetWriteDeadline(time.Time) error { return nil }

var errVStop = errors.New("verif: stop after ClientHelloInfo")

// vTLSExtract reports whether crypto/tls parses the record as a ClientHello and
// what server name and ALPN list it extracts.
func vTLSExtract(rec []byte) (ok bool, sni string, alpn []string) {
	cfg := &tls.Config{GetConfigForClient: func(chi *tls.ClientHelloInfo) (*tls.Config, error) {
		ok, sni, alpn = true, chi.ServerName, chi.SupportedProtos
		return nil, errVStop
	}}
	srv := tls.Server(&vOneShotConn{in: rec}, cfg)
	_ = srv.Handshake()
	return
}

// vTLSClientTry starts a crypto/tls client handshake with the given ECH config
// list against a peer that says nothing, and classifies the outcome:
// "malformed" (list rejected by the parser), "novalid" (no usable config),
// "other" (the list was accepted; the handshake stopped later).
func vTLSClientTry(list []byte) string {
	cfg := &tls.Config{EncryptedClientHelloConfigList: list, ServerName: "inner.example", MinVersion: tls.VersionTLS13,
		CurvePreferences: []tls.CurveID{tls.X25519}, InsecureSkipVerify: true}
	err := tls.Client(&vOneShotConn{}, cfg).Handshake()
	if err == nil {
		return "other"
	}
	msg := err.Error()
	switch {
	case vContains(msg, "malformed ECHConfigList"), vContains(msg, "malformed"):
		return "malformed"
	case vContains(msg, "contains no valid configs"):
		return "novalid"
	}
	return "other"
}

func vContains(s, sub string) bool {
	for i := 0; i+len(sub) <= len(s); i++ {
		if s[i:i+len(sub)] == sub {
			return true
		}
	}
	return false
}
