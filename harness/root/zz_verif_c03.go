package ech

import "context"

// C03: an accepted inner hello is reconstructed byte-exactly.

// vOuterPool builds n outer extensions with distinct symbolic-ish types and
// symbolic data (0..2 bytes); types are drawn from a pool that includes
// key_share(51), supported_groups(10), signature_algorithms(13), GREASE.
func vOuterPool(n int) []vExt {
	pool := []uint16{51, 10, 13, 0x0a0a, 45}
	var out []vExt
	for i := 0; i < n; i++ {
		out = append(out, vExt{pool[i], vBytes(i % 3)})
	}
	return out
}

// verifC03Reconstruct: outer hello = SNI(public name) + supported_versions +
// nOuter free extensions + ECH (at a symbolic position among them); inner =
// symbolic version/random/suites, SNI, ALPN, supported_versions(1.3), the
// inner-type ECH extension, nInner opaque extensions and optionally an
// ech_outer_extensions marker at a symbolic position referencing an
// order-preserving subsequence of the outer extensions chosen by a symbolic mask.
func verifC03Reconstruct() {
	nOuter := vInt(0, 3)
	pad := 2 * vInt(0, 1)
	name := []byte("pub.example")
	k := vMakeKey(0, vByte(), [][2]uint16{{1, 1}, {1, 3}}, name)
	suite := k.suites[vInt(0, 1)]

	free := vOuterPool(nOuter)
	outer := vHello{version: 0x0303, random: vBytes(32), sid: vBytes(2 * vInt(0, 1)), suites: []byte{0x13, 0x01}, comp: []byte{0}}
	outer.exts = append(outer.exts, vSNI(name), vVersions(0x0304), vALPN([][]byte{[]byte("h2"), []byte("http/1.1")}))
	echPos := 3 + vInt(0, nOuter) // ECH somewhere among / after the free extensions
	for i := 0; i <= nOuter; i++ {
		if 3+i == echPos {
			outer.exts = append(outer.exts, vExt{0xfe0d, nil})
		}
		if i < nOuter {
			outer.exts = append(outer.exts, free[i])
		}
	}

	// inner extension list
	innerName := vBytes(3)
	proto := vBytes(2)
	hasSNI, hasALPN := vBool(), vBool() // the inner hello may lack a server name / ALPN of its own
	// the inner hello's own opaque extension has an arbitrary type (seed C03j dropped inner
	// extensions of type 21) other than the types this harness gives a structural role
	own := vUint16()
	vAssume(own != 0 && own != 16 && own != 43 && own != 0xfe0d && own != 0xfd00)
	vAssume(own != 51 && own != 10 && own != 13 && own != 0x0a0a && own != 45)
	base := []vExt{vECHInner(), vVersions(0x0304), {own, vBytes(1)}}
	if hasALPN {
		base = append([]vExt{vALPN([][]byte{proto})}, base...)
	}
	if hasSNI {
		base = append([]vExt{vSNI(innerName)}, base...)
	}
	var refTypes []uint16 // referenced outer extension types, in outer order
	var refExts []vExt
	useMarker := nOuter > 0 && vBool()
	if useMarker {
		for i := 0; i < nOuter; i++ {
			if vBool() {
				refTypes = append(refTypes, free[i].typ)
				refExts = append(refExts, free[i])
			}
		}
	}
	if useMarker && len(refTypes) == 0 {
		useMarker = false // (an empty reference list is malformed: C04 R8a)
	}
	markerPos := -1
	if useMarker {
		markerPos = vInt(0, len(base))
	}
	var innerExts, wantExts []vExt
	for i := 0; i <= len(base); i++ {
		if i == markerPos {
			innerExts = append(innerExts, vOuterExtensions(refTypes))
			wantExts = append(wantExts, refExts...)
		}
		if i < len(base) {
			innerExts = append(innerExts, base[i])
			wantExts = append(wantExts, base[i])
		}
	}
	inner := vHello{version: vUint16(), random: vBytes(32), suites: vCat([]byte{0x13, 0x02}, vBytes(2)), comp: []byte{0}, exts: innerExts}
	sealed := vSeal(k, suite[0], suite[1], outer, echPos, vEncodeInner(inner, pad))

	tr := newVTransport(sealed.outer.record())
	c, err := NewConn(context.Background(), tr, WithKeys([]Key{k.key()}))
	vAssert(err == nil, "NewConn succeeds on an honest ECH hello")
	vAssert(c.ECHAccepted(), "honest ECH hello accepted")
	vReach("accepted")

	// expected ClientHelloInner: session id from the outer hello, marker replaced in place
	want := inner
	want.sid = outer.sid
	want.exts = wantExts
	wantMsg := vHandshake(want.body())

	got, _ := vReadAll(c, 1+vInt(0, 1)*200, 5+len(wantMsg))
	vAssert(len(got) == 5+len(wantMsg), "first record has the expected size")
	vAssert(got[0] == 22 && int(got[3])<<8|int(got[4]) == len(wantMsg), "record header frames the inner hello")
	vAssert(vBytesEq(got[5:], wantMsg), "reconstructed inner hello is byte-exact")
	if hasSNI {
		vAssert(vBytesEq([]byte(c.ServerName()), innerName), "ServerName is the inner SNI")
	} else {
		vAssert(c.ServerName() == "", "no inner SNI: ServerName is empty (never the outer name)")
	}
	al := c.ALPNProtos()
	if hasALPN {
		vAssert(len(al) == 1 && vBytesEq([]byte(al[0]), proto), "ALPNProtos is the inner ALPN list")
	} else {
		vAssert(len(al) == 0, "no inner ALPN: ALPNProtos is empty (never the outer list)")
	}
	// the backend is an independent TLS stack: crypto/tls's server fed the delivered record
	if tok, tsni, talpn := vTLSExtract(got); tok {
		vAssert(tsni == c.ServerName(), "ServerName equals what crypto/tls extracts from the delivered hello")
		vAssert(len(talpn) == len(al), "ALPNProtos equals what crypto/tls extracts (length)")
		for i := range talpn {
			if i < len(al) {
				vAssert(talpn[i] == al[i], "ALPNProtos equals what crypto/tls extracts")
			}
		}
		vReach("tls-agrees")
	}
	vObserve(len(got), c.ECHAccepted())
	vReach("checked")
}

// verifC03Interpreted: the ech_outer_extensions marker references the outer
// extensions the parser itself interprets - server_name, supported_versions,
// ALPN - and a large key_share (300 / 1300 bytes, as post-quantum shares are), a
// symbolic subset in outer order; what is not referenced the inner hello carries
// itself (its own SNI / a two-entry version list / its own ALPN).  The encoded
// inner hello may (non-conformingly) carry a session id of its own: the outer
// hello's is substituted all the same.  ServerName / ALPNProtos are those of
// the reconstructed hello.
func verifC03Interpreted() {
	name := []byte("pub.example")
	k := vMakeKey(0, vByte(), [][2]uint16{{1, 1}}, name)
	big := make([]byte, []int{300, 1300, 2}[vInt(0, 2)])
	for i := range big {
		big[i] = byte(i)
	}
	outer := vHello{version: 0x0303, random: vBytes(32), sid: vBytes(2 * vInt(0, 1)), suites: []byte{0x13, 0x01}, comp: []byte{0}}
	outer.exts = []vExt{vSNI(name), vVersions(0x0304), vALPN([][]byte{[]byte("h2"), []byte("http/1.1")}), {51, big}, {0xfe0d, nil}}
	refSNI, refVer, refALPN, refKS := vBool(), vBool(), vBool(), vBool()
	innerName := vBytes(3)
	proto := vBytes(2)
	var innerExts, wantExts, refExts []vExt
	var refTypes []uint16
	own := func(e vExt) {
		innerExts = append(innerExts, e)
		wantExts = append(wantExts, e)
	}
	ref := func(i int) {
		refTypes = append(refTypes, outer.exts[i].typ)
		refExts = append(refExts, outer.exts[i])
	}
	if refSNI {
		ref(0)
	} else {
		own(vSNI(innerName))
	}
	own(vECHInner())
	if refVer {
		ref(1)
	} else {
		own(vVersions(0x0303, 0x0304))
	}
	if refALPN {
		ref(2)
	} else {
		own(vALPN([][]byte{proto}))
	}
	if refKS {
		ref(3)
	}
	if len(refTypes) > 0 {
		innerExts = append(innerExts, vOuterExtensions(refTypes))
		wantExts = append(wantExts, refExts...)
	}
	// an inner hello that is large by itself (an opaque extension of 4000 or 9000 bytes): sizes towards the record limit
	if sz := []int{0, 4000, 9000}[vInt(0, 2)]; sz > 0 {
		blob := make([]byte, sz)
		for i := range blob {
			blob[i] = byte(i * 7)
		}
		own(vExt{0x1234, blob})
	}
	inner := vHello{version: 0x0303, random: vBytes(32), suites: []byte{0x13, 0x02}, comp: []byte{0}, exts: innerExts}
	enc := inner
	enc.sid = vBytes(vInt(0, 2)) // conforming clients send it empty
	sealed := vSeal(k, 1, 1, outer, 4, enc.body())
	tr := newVTransport(sealed.outer.record())
	c, err := NewConn(context.Background(), tr, WithKeys([]Key{k.key()}))
	vAssert(err == nil && c.ECHAccepted(), "honest ECH hello accepted (interpreted extensions referenced from the outer hello)")
	vAssert(len(tr.out) == 0 && !tr.closed, "accepting a hello writes nothing to the client and leaves the connection open")
	want := inner
	want.sid = outer.sid
	want.exts = wantExts
	wantMsg := vHandshake(want.body())
	got, _ := vReadAll(c, 16500, 5+len(wantMsg))
	vAssert(len(got) == 5+len(wantMsg) && got[0] == 22 && int(got[3])<<8|int(got[4]) == len(wantMsg), "record header frames the inner hello")
	vAssert(vBytesEq(got[5:], wantMsg), "reconstructed inner hello is byte-exact (outer session id, references spliced in place)")
	if refSNI {
		vAssert(c.ServerName() == string(name), "ServerName is that of the reconstructed hello (referenced outer SNI)")
	} else {
		vAssert(vBytesEq([]byte(c.ServerName()), innerName), "ServerName is the inner SNI")
	}
	al := c.ALPNProtos()
	if refALPN {
		vAssert(len(al) == 2 && al[0] == "h2" && al[1] == "http/1.1", "ALPNProtos is that of the reconstructed hello (referenced outer ALPN)")
	} else {
		vAssert(len(al) == 1 && vBytesEq([]byte(al[0]), proto), "ALPNProtos is the inner ALPN list")
	}
	vReach("interpreted")
}
