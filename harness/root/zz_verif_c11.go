package ech

// C11: ECH configs and config lists encode to the standard format and round-trip.

// vSpec builds a symbolic ConfigSpec within the stated bounds.
func vSpec(nameLens []int, keyLens []int, maxSuites int) ConfigSpec {
	var s ConfigSpec
	s.Version = 0xfe0d
	s.ID = vByte()
	s.KEM = vUint16()
	s.PublicKey = vBytes(keyLens[vInt(0, len(keyLens)-1)])
	ns := vInt(0, maxSuites)
	for i := 0; i < ns; i++ {
		s.CipherSuites = append(s.CipherSuites, CipherSuite{KDF: vUint16(), AEAD: vUint16()})
	}
	s.PublicName = vBytes(nameLens[vInt(0, len(nameLens)-1)])
	s.MaximumNameLength = vByte() // an input the encoder must ignore: the value is derived from the name
	return s
}

// vRefConfig is the draft-ietf-tls-esni section 4 layout written out by hand.
func vRefConfig(s ConfigSpec) []byte {
	var c []byte
	c = append(c, s.ID, byte(s.KEM>>8), byte(s.KEM))
	c = append(c, byte(len(s.PublicKey)>>8), byte(len(s.PublicKey)))
	c = append(c, s.PublicKey...)
	c = append(c, byte(len(s.CipherSuites)*4>>8), byte(len(s.CipherSuites)*4))
	for _, cs := range s.CipherSuites {
		c = append(c, byte(cs.KDF>>8), byte(cs.KDF), byte(cs.AEAD>>8), byte(cs.AEAD))
	}
	ml := len(s.PublicName) + 16
	if ml > 255 {
		ml = 255
	}
	c = append(c, byte(ml), byte(len(s.PublicName)))
	c = append(c, s.PublicName...)
	c = append(c, 0, 0)
	return append([]byte{byte(s.Version >> 8), byte(s.Version), byte(len(c) >> 8), byte(len(c))}, c...)
}

func vSpecEq(a, b ConfigSpec) bool {
	if a.Version != b.Version || a.ID != b.ID || a.KEM != b.KEM || len(a.CipherSuites) != len(b.CipherSuites) {
		return false
	}
	ok := vBytesEq(a.PublicKey, b.PublicKey) && vBytesEq(a.PublicName, b.PublicName)
	for i := range a.CipherSuites {
		if a.CipherSuites[i] != b.CipherSuites[i] {
			ok = false
		}
	}
	return ok
}

// verifC11Encode: Bytes() equals the reference layout and Spec() inverts it, for
// all ids, KEMs, key lengths {0,1,4,32}, up to 3 suites and public names of
// length 1..8 and the boundary lengths 239, 240, 254, 255; lengths 0 and 256 are refused.
func verifC11Encode() {
	s := vSpec([]int{1, 2, 3, 8, 239, 240, 254, 255}, []int{0, 1, 4, 32, 1216}, 3) // (1216: an X25519MLKEM768 share)
	got, err := s.Bytes()
	if len(s.PublicKey) == 0 || len(s.CipherSuites) == 0 {
		// public_key<1..2^16-1> and cipher_suites<4..2^16-4>: a spec without a key or without suites has no well-formed encoding
		vAssert(err != nil, "a spec without a public key or without cipher suites is refused")
		vReach("malformed-refused")
		return
	}
	vAssert(err == nil, "Bytes succeeds for a 1..255 byte public name")
	want := vRefConfig(s)
	vAssert(vBytesEq(got, want), "Bytes equals the section 4 layout")
	back, err := Config(got).Spec()
	vAssert(err == nil, "Spec parses Bytes output")
	vAssert(vSpecEq(back, s), "Spec(Bytes(s)) == s")
	ml := len(s.PublicName) + 16
	if ml > 255 {
		ml = 255
	}
	vAssert(int(back.MaximumNameLength) == ml, "maximum_name_length derived from the name")
	vReach("roundtrip")
}

func verifC11Refuse() {
	s := vSpec([]int{0, 256}, []int{32}, 1)
	_, err := s.Bytes()
	vAssert(err != nil, "public name of 0 or 256 bytes refused")
	_, _, err = NewConfig(vByte(), s.PublicName)
	vAssert(err != nil, "NewConfig refuses a 0 or 256 byte public name")
	vReach("refused")
}

// verifC11List: ConfigList / ParseConfigList round-trip for lists of 0..3 configs.
func verifC11List() {
	n := vInt(0, 2+vTier())
	var specs []ConfigSpec
	var cfgs []Config
	var ref []byte
	for i := 0; i < n; i++ {
		s := vSpec([]int{1, 3}, []int{1, 32}, 2)
		vAssume(len(s.CipherSuites) > 0)
		b, err := s.Bytes()
		vAssert(err == nil, "Bytes")
		specs = append(specs, s)
		cfgs = append(cfgs, b)
		ref = append(ref, vRefConfig(s)...)
	}
	list, err := ConfigList(cfgs)
	vAssert(err == nil, "ConfigList")
	vAssert(vBytesEq(list, append([]byte{byte(len(ref) >> 8), byte(len(ref))}, ref...)), "list = u16 length || configs")
	back, err := ParseConfigList(list)
	vAssert(err == nil, "ParseConfigList parses ConfigList output")
	vAssert(len(back) == n, "same number of configs")
	for i := range back {
		if i < n {
			vAssert(vSpecEq(back[i], specs[i]), "list round trip")
		}
	}
	// every proper prefix of a non-trivial list is rejected
	if len(list) > 0 && (n <= 1 || vTier() > 0) {
		k := vInt(0, len(list)-1)
		_, err := ParseConfigList(list[:k])
		vAssert(err != nil, "truncated list rejected")
	}
	// the last config cut short under an outer length that is consistent with the cut
	if n >= 1 && len(ref) > 0 {
		lc := len(cfgs[n-1])
		j := []int{1, 2, lc / 2, lc - 1, lc}[vInt(0, 4)] // cut sizes: inside the last config's tail, its middle, its header, all of it
		cutRef := ref[:len(ref)-j]
		_, err := ParseConfigList(append([]byte{byte(len(cutRef) >> 8), byte(len(cutRef))}, cutRef...))
		if n == 1 && j == len(cfgs[0]) {
			vAssert(err == nil, "an empty list parses")
		} else if j < len(cfgs[n-1]) {
			vAssert(err != nil, "a list whose last config is truncated is rejected as a whole")
		}
	}
	vReach("list")
}

// verifC11NewConfig: NewConfig produces the reference layout for its spec.
func verifC11NewConfig() {
	name := vBytes([]int{1, 5, 255}[vInt(0, 2)])
	id := vByte()
	key, cfg, err := NewConfig(id, name)
	vAssert(err == nil, "NewConfig")
	s, err := cfg.Spec()
	vAssert(err == nil, "Spec of NewConfig output")
	vAssert(s.ID == id && s.KEM == 0x20 && s.Version == 0xfe0d, "id/kem/version")
	vAssert(vBytesEq(s.PublicName, name), "public name")
	vAssert(vBytesEq(s.PublicKey, key.PublicKey().Bytes()), "public key is the generated key's")
	vAssert(len(s.CipherSuites) == 3, "three suites")
	if len(s.CipherSuites) == 3 {
		vAssert(s.CipherSuites[0] == CipherSuite{1, 3} && s.CipherSuites[1] == CipherSuite{1, 2} && s.CipherSuites[2] == CipherSuite{1, 1},
			"the documented suites: HKDF-SHA256 with ChaCha20Poly1305, AES-256-GCM, AES-128-GCM")
	}
	vAssert(len(s.PublicKey) == 32, "an X25519 public key")
	vAssert(vBytesEq(cfg, vRefConfig(s)), "layout")
	vReach("newconfig")
}

// verifC11ParseRaw: arbitrary bytes never panic the parsers; truncations of a
// valid encoding are rejected; bytes beyond the declared length are not read.
func verifC11ParseRaw() {
	n := 20
	if vTier() > 0 {
		n = 26
	}
	b := vBytes(vInt(0, n))
	s1, err1 := Config(b).Spec()
	if specs, lerr := ParseConfigList(b); lerr == nil {
		// an accepted list tiles its declared length exactly with well-framed configs
		declared := int(b[0])<<8 | int(b[1])
		vAssert(len(b) >= 2+declared, "list length within the input")
		rest := b[2 : 2+declared]
		cnt := 0
		for len(rest) > 0 && cnt <= len(specs) {
			ok, _, _, _ := vRefConfigFrame(rest)
			vAssert(ok && len(rest) >= 4, "every config of an accepted list is well framed")
			if !ok || len(rest) < 4 {
				break
			}
			rest = rest[4+(int(rest[2])<<8|int(rest[3])):]
			cnt++
		}
		vAssert(cnt == len(specs), "an accepted list yields exactly the configs it holds")
		vReach("raw-list")
	}
	vReach("raw")
	if err1 == nil {
		// every field lies inside the vector that declares it (reference walk over the framing)
		vAssert(b[0] == 0xfe && b[1] == 0x0d, "only version 0xfe0d configs are accepted")
		ok, pk, suites, name := vRefConfigFrame(b)
		vAssert(ok, "accepted config is well framed: every vector fits in its parent, suites vector is whole")
		vAssert(vBytesEq(s1.PublicKey, pk) && vBytesEq(s1.PublicName, name) && len(s1.CipherSuites)*4 == len(suites), "fields are exactly the declared vectors")
		for i, cs := range s1.CipherSuites {
			vAssert(cs.KDF == uint16(suites[4*i])<<8|uint16(suites[4*i+1]) && cs.AEAD == uint16(suites[4*i+2])<<8|uint16(suites[4*i+3]), "suite read from inside the declared suites vector")
		}
		// non-interference: appending bytes after the declared length changes nothing
		declared := 4 + (int(b[2])<<8 | int(b[3]))
		tail := vBytes(2)
		s2, err2 := Config(vCat(b[:declared], tail)).Spec()
		vAssert(err2 == nil && vSpecEq(s1, s2) && s1.MaximumNameLength == s2.MaximumNameLength, "result independent of bytes after the declared length")
		// every truncation inside the declared length is rejected
		k := vInt(0, declared-1)
		_, err3 := Config(b[:k]).Spec()
		vAssert(err3 != nil, "truncated config rejected")
		vReach("raw-valid")
	}
}

// vRefConfigFrame walks the ECHConfig framing (draft-ietf-tls-esni section 4):
// version(2) length(2) { id(1) kem(2) public_key<2> cipher_suites<2> max_name(1) public_name<1> extensions<2> }.
func vRefConfigFrame(b []byte) (ok bool, pk, suites, name []byte) {
	if len(b) < 4 {
		return
	}
	n := int(b[2])<<8 | int(b[3])
	if len(b) < 4+n {
		return
	}
	c := b[4 : 4+n]
	if len(c) < 5 {
		return
	}
	l := int(c[3])<<8 | int(c[4])
	c = c[5:]
	if len(c) < l+2 {
		return
	}
	pk, c = c[:l], c[l:]
	l = int(c[0])<<8 | int(c[1])
	c = c[2:]
	if len(c) < l || l%4 != 0 {
		return
	}
	suites, c = c[:l], c[l:]
	if len(c) < 2 {
		return
	}
	l = int(c[1])
	c = c[2:]
	if len(c) < l {
		return
	}
	name, c = c[:l], c[l:]
	// extensions<0..2^16-1> close the structure: present, and nothing after them
	if len(c) < 2 || len(c) != 2+(int(c[0])<<8|int(c[1])) {
		return false, nil, nil, nil
	}
	return true, pk, suites, name
}

// verifC11TLSClient: an independent consumer - crypto/tls's client - is given the
// config list: it must parse it and pick the config (the handshake may fail
// later for other reasons: there is no server).  Only configs crypto/tls can
// use are built: KEM 0x0020, a 32-byte key, NewConfig's suites, a DNS-name
// public name of at least two labels (crypto/tls policy).
func verifC11TLSClient() {
	names := []string{"a.b", "pub.example", "a-b.c0.example", vLongDNSName(239), vLongDNSName(240), vLongDNSName(253)}
	name := names[vInt(0, len(names)-1)]
	spec := ConfigSpec{Version: 0xfe0d, ID: vByte(), KEM: 0x0020, PublicKey: vBytes(32),
		CipherSuites: []CipherSuite{{1, 3}, {1, 2}, {1, 1}}, PublicName: []byte(name)}
	cfg, err := spec.Bytes()
	vAssert(err == nil, "Bytes")
	if vBool() {
		// the config as NewConfig itself produces it
		_, cfg, err = NewConfig(spec.ID, spec.PublicName)
		vAssert(err == nil, "NewConfig")
	}
	n := vInt(1, 2)
	cfgs := []Config{cfg}
	if n == 2 {
		other := spec
		other.ID = vByte()
		c2, _ := other.Bytes()
		cfgs = append(cfgs, c2)
	}
	list, err := ConfigList(cfgs)
	vAssert(err == nil, "ConfigList")
	cerr := vTLSClientTry(list)
	vAssert(cerr != "malformed" && cerr != "novalid", "crypto/tls's client parses the list and accepts the config")
	vReach("tls-client")
}

func vLongDNSName(n int) string {
	// labels of at most 63 bytes, total length n
	b := make([]byte, n)
	for i := range b {
		if i%64 == 63 {
			b[i] = '.'
		} else {
			b[i] = 'a' + byte(i%26)
		}
	}
	if b[n-1] == '.' {
		b[n-1] = 'z'
	}
	return string(b)
}

// verifC11TLSServer: crypto/tls's server accepts the config (with its private
// key) as an EncryptedClientHelloKey: when a ClientHello names the config id it
// parses the config and the key without complaint.
func verifC11TLSServer() {
	names := []string{"a.b", "pub.example", vLongDNSName(240), vLongDNSName(255)}
	name := names[vInt(0, len(names)-1)]
	priv, pub := vKey(0)
	id := vByte()
	spec := ConfigSpec{Version: 0xfe0d, ID: id, KEM: 0x0020, PublicKey: pub,
		CipherSuites: []CipherSuite{{1, 3}, {1, 2}, {1, 1}}, PublicName: []byte(name)}
	cfg, err := spec.Bytes()
	vAssert(err == nil, "Bytes")
	if vBool() {
		// the config and key as NewConfig itself produces them
		key, c2, err := NewConfig(id, []byte(name))
		vAssert(err == nil, "NewConfig")
		cfg, priv = c2, key.Bytes()
	}
	out := vTLSServerTry(cfg, priv, id)
	vAssert(out != "badconfig" && out != "badkey", "crypto/tls's server accepts the config and key as EncryptedClientHelloKeys")
	vReach("tls-server")
}

// verifC11Oversized: a list whose configs do not fit the 16-bit length prefix
// (220 or 260 configs with a 255-byte public name, concrete) is refused by
// ConfigList - it never yields bytes whose declared length differs from their
// contents.
func verifC11Oversized() {
	name := make([]byte, 255)
	for i := range name {
		name[i] = 'n'
	}
	spec := ConfigSpec{Version: 0xfe0d, ID: 7, KEM: 0x20, PublicKey: make([]byte, 32), CipherSuites: []CipherSuite{{1, 1}}, PublicName: name}
	cfg, err := spec.Bytes()
	vAssert(err == nil, "Bytes")
	n := []int{220, 260, 200}[vInt(0, 2)]
	cfgs := make([]Config, n)
	for i := range cfgs {
		cfgs[i] = cfg
	}
	total := n * len(cfg)
	list, err := ConfigList(cfgs)
	if total > 65535 {
		vAssert(err != nil, "a config list that does not fit its 16-bit length is refused")
		vReach("oversized")
		return
	}
	vAssert(err == nil && len(list) == 2+total && int(list[0])<<8|int(list[1]) == total, "a large list that fits is encoded with its true length")
	vReach("large")
}
