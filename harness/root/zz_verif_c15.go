package ech

import (
	"net"

	"github.com/c2FmZQ/ech/dns"
)

// C15: connection targets are a pure, rule-conforming function of the resolution result.

type vTgt struct {
	ip   []byte
	port uint16
	ech  []byte
	alpn []string
}

// vIP builds an address of the given byte length whose last byte is symbolic
// over {1,2} so that duplicates arise.
func vIP(size int) net.IP {
	ip := make([]byte, size)
	if size == 16 {
		ip[0], ip[1] = 0x20, 0x01
	} else if size >= 1 {
		ip[0] = 10
	}
	if size > 0 {
		b := vByte()
		vAssume(b == 1 || b == 2)
		ip[size-1] = b
	}
	return net.IP(ip)
}

func vIPList(n int) []net.IP {
	var out []net.IP
	for i := 0; i < n; i++ {
		if i == 1 && vBool() {
			// the 16-byte spelling of an IPv4 address (what net.ParseIP returns; an AAAA record may hold ::ffff:a.b.c.d):
			// it is the same address, and the same family, as its 4-byte spelling
			v4 := vIP(4)
			out = append(out, net.IPv4(v4[0], v4[1], v4[2], v4[3]))
			continue
		}
		out = append(out, vIP([]int{4, 16, 5}[vInt(0, 1+vTier())])) // (5: not an IP address, thorough tier)
	}
	return out
}

// vNorm is the address itself: the 4-byte form of an IPv4 address however it is spelled.
func vNorm(ip []byte) []byte {
	if v4 := net.IP(ip).To4(); v4 != nil && len(ip) == 16 {
		return v4
	}
	return ip
}

// vRefTargets is the rule set of the statement, written as a straight-line reference.
func vRefTargets(r ResolveResult, network string) []vTgt {
	var out []vTgt
	famOK := func(ip []byte) bool {
		ip = vNorm(ip)
		if network == "tcp4" || network == "udp4" {
			return len(ip) == 4
		}
		if network == "tcp6" || network == "udp6" {
			return len(ip) == 16
		}
		return len(ip) == 4 || len(ip) == 16
	}
	dup := func(ip []byte, port uint16) bool {
		ip = vNorm(ip)
		for _, t := range out {
			if t.port == port && vBytesEq(t.ip, ip) {
				return true
			}
		}
		return false
	}
	for _, h := range r.HTTPS {
		if h.Priority == 0 {
			continue // alias mode
		}
		port := r.Port
		if port == 80 {
			port = 443
		}
		if h.Port > 0 {
			port = h.Port
		}
		var alpn []string
		alpn = append(alpn, h.ALPN...)
		if !h.NoDefaultALPN {
			alpn = append(alpn, "http/1.1")
		}
		var ips []net.IP
		if h.Target != "" {
			ips = r.Additional[h.Target]
		} else if len(r.Address) > 0 {
			ips = r.Address
		} else {
			ips = append(append(ips, h.IPv4Hint...), h.IPv6Hint...)
		}
		for _, ip := range ips {
			if famOK(ip) && !dup(ip, port) {
				out = append(out, vTgt{ip: vNorm(ip), port: port, ech: h.ECH, alpn: alpn})
			}
		}
	}
	if len(out) > 0 {
		return out
	}
	for _, ip := range r.Address {
		if famOK(ip) && !dup(ip, r.Port) {
			out = append(out, vTgt{ip: vNorm(ip), port: r.Port})
		}
	}
	return out
}

type vSnap struct {
	ips   [][]byte
	alpn  [][]string // up to capacity
	echs  [][]byte
	ports []uint16
	meta  []string // result port, Additional keys with their lengths, per-record priority / target / flags
}

func vSnapshot(r ResolveResult) vSnap {
	var s vSnap
	cp := func(l []net.IP) {
		for _, ip := range l {
			s.ips = append(s.ips, append([]byte{}, ip...))
		}
	}
	cp(r.Address)
	s.meta = append(s.meta, string([]byte{byte(r.Port >> 8), byte(r.Port), byte(len(r.Address)), byte(len(r.HTTPS)), byte(len(r.Additional))}))
	for _, k := range []string{"t1", "t2"} {
		if v, ok := r.Additional[k]; ok {
			s.meta = append(s.meta, k+string([]byte{byte(len(v))}))
		}
	}
	for _, h := range r.HTTPS {
		nd := byte(0)
		if h.NoDefaultALPN {
			nd = 1
		}
		s.meta = append(s.meta, h.Target+string([]byte{byte(h.Priority >> 8), byte(h.Priority), nd, byte(len(h.IPv4Hint)), byte(len(h.IPv6Hint))}))
	}
	for _, h := range r.HTTPS {
		full := h.ALPN[:cap(h.ALPN)]
		s.alpn = append(s.alpn, append([]string{}, full...))
		s.echs = append(s.echs, append([]byte{}, h.ECH...))
		s.ports = append(s.ports, h.Port)
		cp(h.IPv4Hint)
		cp(h.IPv6Hint)
		cp(r.Additional[h.Target])
	}
	return s
}

func vSnapEq(a, b vSnap) bool {
	if len(a.ips) != len(b.ips) || len(a.alpn) != len(b.alpn) || len(a.meta) != len(b.meta) {
		return false
	}
	for i := range a.meta {
		if a.meta[i] != b.meta[i] {
			return false
		}
	}
	ok := true
	for i := range a.ips {
		if !vBytesEq(a.ips[i], b.ips[i]) {
			ok = false
		}
	}
	for i := range a.alpn {
		if len(a.alpn[i]) != len(b.alpn[i]) {
			return false
		}
		for j := range a.alpn[i] {
			if a.alpn[i][j] != b.alpn[i][j] {
				ok = false
			}
		}
		if !vBytesEq(a.echs[i], b.echs[i]) || a.ports[i] != b.ports[i] {
			ok = false
		}
	}
	return ok
}

func vCollect(r ResolveResult, network string, stopAfter int) []Target {
	var got []Target
	for t := range r.Targets(network) {
		got = append(got, t)
		if len(got) == stopAfter {
			break
		}
	}
	return got
}

// verifC15Targets: symbolic result (<= 2 HTTPS records), network,
// early termination; yielded sequence == reference; purity; repeatability.
func verifC15Targets() {
	nh := vInt(0, 2)
	r := ResolveResult{Port: []uint16{443, 80, 8443, 0}[vInt(0, 2+vTier())]}
	r.Address = vIPList(2 * vInt(0, 1))
	r.Additional = map[string][]net.IP{}
	if vBool() {
		r.Additional["t1"] = vIPList(1)
	}
	r.Additional["t2"] = []net.IP{{10, 9, 9, 9}} // a second target name with an address of its own
	for i := 0; i < nh; i++ {
		pr := vUint16()
		vAssume(pr <= 2)
		full := i == 0 // only the first record varies in every field
		h := dns.HTTPS{Priority: pr, NoDefaultALPN: full && vBool()}
		if vBool() {
			h.Target = "t1"
			if i == 1 {
				h.Target = "t2" // each record contributes the addresses of its OWN target
			}
		}
		if full && vBool() {
			h.Port = vUint16()
		}
		// ALPN with one spare capacity slot, as slices produced by append usually have
		na := (i + 1) % 3

		al := make([]string, na, na+1)
		for j := range al {
			al[j] = []string{"h2", "h3"}[j]
		}
		h.ALPN = al
		if i%2 == 0 {
			h.ECH = []byte{0xEC, byte(i)}
		}
		if i == 0 && vBool() {
			h.IPv4Hint = []net.IP{vIP(4)}
			h.IPv6Hint = []net.IP{vIP(16)}
		}
		r.HTTPS = append(r.HTTPS, h)
	}
	network := []string{"tcp", "tcp4", "udp6", "tcp6", "udp", "udp4"}[vInt(0, 2+3*vTier())]
	before := vSnapshot(r)
	want := vRefTargets(r, network)
	stop := vInt(0, 1+vTier()) // 0: never stop early
	got := vCollect(r, network, stop)
	n := len(want)
	if stop > 0 && stop < n {
		n = stop
	}
	vAssert(len(got) == n, "number of targets")
	for i := 0; i < len(got) && i < n; i++ {
		a := got[i].Address.Addr().AsSlice()
		vAssert(vBytesEq(a, want[i].ip), "target address")
		vAssert(got[i].Address.Port() == want[i].port, "target port")
		vAssert(vBytesEq(got[i].ECH, want[i].ech) && (got[i].ECH == nil) == (want[i].ech == nil), "target ECH config list")
		vAssert(len(got[i].ALPN) == len(want[i].alpn), "target ALPN length")
		for j := range got[i].ALPN {
			if j < len(want[i].alpn) {
				vAssert(got[i].ALPN[j] == want[i].alpn[j], "target ALPN entry")
			}
		}
	}
	vAssert(vSnapEq(before, vSnapshot(r)), "enumerating targets does not modify the result (including spare capacity)")
	// one iterator value ranged over twice (first with an early stop) yields the full sequence the second time
	seq := r.Targets(network)
	for range seq {
		break
	}
	cnt := 0
	for t := range seq {
		vAssert(cnt < len(want) && t.Address.Port() == want[cnt].port && vBytesEq(t.Address.Addr().AsSlice(), want[cnt].ip), "ranging over the same sequence again yields the same targets")
		cnt++
	}
	vAssert(cnt == len(want), "ranging over the same sequence again yields every target")
	again := vCollect(r, network, stop)
	vAssert(len(again) == len(got), "second enumeration yields the same number of targets")
	for i := range again {
		if i < len(got) {
			vAssert(again[i].Address == got[i].Address && len(again[i].ALPN) == len(got[i].ALPN), "second enumeration yields the same targets")
		}
	}
	vReach("checked")
}
