package ech

import (
	"context"
	"net"
	"time"

	"github.com/c2FmZQ/ech/dns"
)

// C16: the resolver cache never serves stale answers (sequential part).

// verifC16MinTTL: the TTL reported for a response is the minimum over all of its
// answer records, for every list of <= 3 answers with arbitrary 32-bit TTLs and
// every owner/type pattern (a pure 32-bit query per path).
func verifC16MinTTL() {
	n := vInt(1, 3)
	var ans []dns.RR
	min := uint32(0xffffffff)
	for i := 0; i < n; i++ {
		ttl := vUint32()
		if ttl < min {
			min = ttl
		}
		rr := dns.RR{Name: "n1", Type: 1, Class: 1, TTL: ttl, Data: net.IP{10, 0, 0, byte(i)}}
		switch vInt(0, 2) {
		case 1:
			rr.Name = "other"
		case 2:
			rr.Type, rr.Data = 5, "n1"
		}
		ans = append(ans, rr)
	}
	dns.VerifHook_DoH = func(ctx context.Context, msg *dns.Message, URL string) (*dns.Message, error) {
		return &dns.Message{QR: 1, Answer: ans}, nil
	}
	r := &Resolver{}
	_, ttl, err := r.resolveOneNoCache(context.Background(), "n1", "A")
	vAssert(err == nil, "lookup succeeds")
	vAssert(ttl == min, "TTL of a response = minimum TTL over its answer records (0 = not cacheable)")
	vReach("minttl")
}

// verifC16Cache: a symbolic history of lookups, clock advances, zone changes
// and upstream failures against a Resolver with its real 2Q cache and a
// symbolic clock; ghost state records when each zone version was fetched.
func verifC16Cache() {
	steps := 4
	if vTier() > 0 {
		steps = 5
	}
	clock := int64(vUint32()) + 1_000_000 // seconds
	timeNow = func() time.Time { return time.Unix(clock, 0) }
	failing := false
	failKind := []int{0, 1, 3, 2}[vInt(0, 2-vTier())] // transport error, response code 9, NXDOMAIN (thorough: longer histories, the first two kinds)
	version := 0
	ttlA, ttlB := vUint32(), vUint32()
	two := vBool()
	empty := false
	nodata := false
	lastAskOK := false // the last lookup that went upstream succeeded
	queries := 0
	var fetchedAt [8]int64
	lastFetch := 0
	var minTTL [8]int64
	dns.VerifHook_DoH = func(ctx context.Context, msg *dns.Message, URL string) (*dns.Message, error) {
		queries++
		if failing {
			lastAskOK = false
			switch failKind { // the upstream fails: no response at all, a response code without a documented error, or SERVFAIL
			case 1:
				return &dns.Message{QR: 1, RCode: 9}, nil
			case 2:
				return &dns.Message{QR: 1, RCode: 2}, nil
			case 3:
				return &dns.Message{QR: 1, RCode: 3}, nil // NXDOMAIN is a failure of the lookup like any other
			}
			return nil, errVTransport
		}
		m := &dns.Message{QR: 1}
		mt := int64(ttlA)
		switch {
		case nodata:
			// records, but none that answers the question: an alias to a name without addresses
			m.Answer = append(m.Answer, dns.RR{Name: "n1", Type: 5, Class: 1, TTL: ttlA, Data: "gone.example"})
		case !empty:
			m.Answer = append(m.Answer, dns.RR{Name: "n1", Type: 1, Class: 1, TTL: ttlA, Data: net.IP{10, 0, 0, byte(version)}})
			if two {
				m.Answer = append(m.Answer, dns.RR{Name: "n1", Type: 1, Class: 1, TTL: ttlB, Data: net.IP{10, 0, 1, byte(version)}})
				if int64(ttlB) < mt {
					mt = int64(ttlB)
				}
			}
		default:
			mt = 300 // documented: a response without records is remembered for 300 s
		}
		fetchedAt[version] = clock
		lastFetch = version
		lastAskOK = true
		minTTL[version] = mt
		return m, nil
	}
	r := &Resolver{cache: newResolverCache()}
	lastFailed := false
	for i := 0; i < steps; i++ {
		switch vInt(0, 3) {
		case 0: // lookup
			before := queries
			mustHit := lastAskOK && clock-fetchedAt[lastFetch] < minTTL[lastFetch]
			res, err := r.resolveOne(context.Background(), "n1", "A")
			asked := queries > before
			vAssert(!(mustHit && asked), "within the smallest TTL of the last response a repeated lookup is served from the cache")
			if failing {
				if asked {
					vAssert(err != nil, "upstream failure is reported, not cached")
					lastFailed = true
					continue
				}
			}
			vAssert(err == nil, "lookup succeeds when upstream works or the cache is fresh")
			if lastFailed {
				vAssert(asked, "a failed lookup is never cached: the next lookup asks upstream")
			}
			lastFailed = false
			v := lastFetch // an empty answer carries no version: it is the last one fetched
			if len(res) > 0 {
				v = int(res[0].(net.IP)[3])
			}
			if !asked {
				// served from the cache: must be younger than the smallest TTL of its response
				vAssert(clock-fetchedAt[v] < minTTL[v], "a cached answer is never served at or beyond its smallest TTL")
				vReach("cache-hit")
			} else {
				vAssert(v == version, "a fresh lookup returns the current zone data")
			}
		case 1: // time passes
			d := int64(vUint32())
			vAssume(d <= 1<<31)
			clock += d
		case 2: // zone data changes
			if version < 7 {
				version++
				ttlA, ttlB = vUint32(), vUint32()
				empty = vBool()
				nodata = !empty && vBool()
			}
		case 3:
			failing = !failing
		}
	}
	vReach("history")
}

// verifC16Expiry: within the TTL the upstream is not asked again; after it, it is.
func verifC16Expiry() {
	clock := int64(vUint32()) + 1_000_000
	timeNow = func() time.Time { return time.Unix(clock, 0) }
	ttl := vUint32()
	queries := 0
	dns.VerifHook_DoH = func(ctx context.Context, msg *dns.Message, URL string) (*dns.Message, error) {
		queries++
		return &dns.Message{QR: 1, Answer: []dns.RR{{Name: "n1", Type: 1, Class: 1, TTL: ttl, Data: net.IP{10, 0, 0, 1}}}}, nil
	}
	r := &Resolver{cache: newResolverCache()}
	_, err := r.resolveOne(context.Background(), "n1", "A")
	vAssert(err == nil && queries == 1, "first lookup asks upstream")
	d := int64(vUint32())
	clock += d
	_, err = r.resolveOne(context.Background(), "n1", "A")
	vAssert(err == nil, "second lookup")
	if d < int64(ttl) {
		vAssert(queries == 1, "within the TTL the answer comes from the cache")
		vReach("hit")
	} else {
		vAssert(queries == 2, "at or after expiry the upstream is asked again")
		vReach("miss")
	}
}

// verifC16Repeat: within the TTL a repeated Resolve is answered from the cache
// and yields the same result as the first one (the cached record sets are not
// modified by the first lookup).
func verifC16Repeat() {
	clock := int64(2_000_000)
	timeNow = func() time.Time { return time.Unix(clock, 0) }
	queries := 0
	p1, p2 := vUint16(), vUint16()
	vAssume(p1 <= 2 && p2 <= 2)
	dns.VerifHook_DoH = func(ctx context.Context, msg *dns.Message, URL string) (*dns.Message, error) {
		queries++
		d, _ := dns.DecodeMessage(msg.Bytes())
		q := d.Question[0]
		m := &dns.Message{QR: 1}
		switch q.Type {
		case 65:
			if q.Name == "o.example" {
				m.Answer = append(m.Answer,
					dns.RR{Name: q.Name, Type: 65, Class: 1, TTL: 600, Data: dns.HTTPS{Priority: p1, Target: "a.example", ECH: []byte{1}}},
					dns.RR{Name: q.Name, Type: 65, Class: 1, TTL: 600, Data: dns.HTTPS{Priority: p2, Target: "b.example", ECH: []byte{2}}})
			}
		case 1:
			m.Answer = append(m.Answer, dns.RR{Name: q.Name, Type: 1, Class: 1, TTL: 600, Data: net.IP{10, 0, 0, q.Name[0]}}) // distinct per name
		}
		return m, nil
	}
	r := &Resolver{cache: newResolverCache()}
	r1, err1 := r.Resolve(context.Background(), "o.example")
	n1 := queries
	clock += 10
	r2, err2 := r.Resolve(context.Background(), "o.example")
	vAssert((err1 == nil) == (err2 == nil), "same outcome")
	vAssert(queries == n1, "within the TTL the repeated lookup is served from the cache")
	vAssert(len(r1.HTTPS) == len(r2.HTTPS) && len(r1.Address) == len(r2.Address), "same result sizes")
	for i := range r1.HTTPS {
		if i < len(r2.HTTPS) {
			vAssert(r1.HTTPS[i].Priority == r2.HTTPS[i].Priority && r1.HTTPS[i].Target == r2.HTTPS[i].Target, "same HTTPS records in the same order")
			vAssert(vBytesEq(r1.HTTPS[i].ECH, r2.HTTPS[i].ECH) && len(r2.HTTPS[i].ECH) == 1, "same ECH config lists")
		}
	}
	for i := range r1.Address {
		if i < len(r2.Address) {
			vAssert(vBytesEq(r1.Address[i], r2.Address[i]), "same addresses")
		}
	}
	if err2 == nil && p1 > 0 && p2 > 0 { // (both records in service mode)
		a, b := r2.Additional["a.example"], r2.Additional["b.example"]
		vAssert(len(a) == 1 && len(b) == 1 && a[0].To4()[3] == 'a' && b[0].To4()[3] == 'b', "every name is answered with its own data (cache entries are kept apart by name)")
		vAssert(len(r2.Address) == 1 && r2.Address[0].To4()[3] == 'o', "the origin's own address")
	}
	vReach("repeat")
}

// verifC16Race: the concurrency clause, to the extent the technique reaches it:
// two goroutines resolve the same name through one Resolver (cold cache, so
// both take the slow path in some order) and enumerate the targets of the
// results they were handed; a happens-before monitor over all scheduling
// points reports conflicting accesses that no synchronisation orders.  The
// native replay runs under the Go race detector.
func verifC16Race() {
	vRaceDetect(true)
	vSchedForks(true)
	vPreemptions(2) // every schedule with at most two pre-emptions at synchronisation points
	clock := int64(3_000_000)
	timeNow = func() time.Time { return time.Unix(clock, 0) }
	dns.VerifHook_DoH = func(ctx context.Context, msg *dns.Message, URL string) (*dns.Message, error) {
		d, _ := dns.DecodeMessage(msg.Bytes())
		q := d.Question[0]
		m := &dns.Message{QR: 1}
		switch q.Type {
		case 65:
			al := make([]string, 1, 2) // spare capacity, as produced by append
			al[0] = "h2"
			m.Answer = append(m.Answer,
				dns.RR{Name: q.Name, Type: 65, Class: 1, TTL: 600, Data: dns.HTTPS{Priority: 2, ALPN: al, ECH: []byte{2}}},
				dns.RR{Name: q.Name, Type: 65, Class: 1, TTL: 600, Data: dns.HTTPS{Priority: 1, ECH: []byte{1}}})
		case 1:
			m.Answer = append(m.Answer, dns.RR{Name: q.Name, Type: 1, Class: 1, TTL: 600, Data: net.IP{10, 0, 0, 1}})
		}
		return m, nil
	}
	r := &Resolver{cache: newResolverCache()}
	warm := vBool()
	if warm {
		_, _ = r.Resolve(context.Background(), "o.example")
	}
	// optionally the upstream fails for the concurrent lookups (after an optional warm-up
	// whose entries are then made to expire): a failure must never be shared as an answer
	failing := vBool()
	if failing {
		clock += 1000
		inner := dns.VerifHook_DoH
		_ = inner
		dns.VerifHook_DoH = func(ctx context.Context, msg *dns.Message, URL string) (*dns.Message, error) {
			return &dns.Message{QR: 1, RCode: 2}, nil // SERVFAIL
		}
	}
	done := make(chan int, 2)
	for i := 0; i < 2; i++ {
		go func() {
			if failing {
				// one cached lookup (the unit the cache works in): a failure is never an answer
				_, lerr := r.resolveOne(context.Background(), "o.example", "A")
				vAssert(lerr != nil, "while the upstream fails every concurrent lookup reports the failure (failures are never cached or shared)")
			}
			res, err := r.Resolve(context.Background(), "o.example")
			if failing {
				vAssert(err != nil, "while the upstream fails Resolve reports the failure")
			}
			n := 0
			if err == nil {
				for range res.Targets("tcp") {
					n++
				}
			}
			done <- n
		}()
	}
	a, b := <-done, <-done
	vAssert(a == b, "both users see the same number of targets")
	vRaces() // every race found by the monitor is reported as a violation of kind "race"
	vReach("race-checked")
}

// verifC16Keys: cache entries are kept apart by name and type, a failure for one
// name does not disturb another name's entry, and a result handed out earlier is
// not changed when its entry is refreshed.
func verifC16Keys() {
	clock := int64(4_000_000)
	timeNow = func() time.Time { return time.Unix(clock, 0) }
	queries := 0
	version := byte(1)
	failN2 := false
	dns.VerifHook_DoH = func(ctx context.Context, msg *dns.Message, URL string) (*dns.Message, error) {
		queries++
		d, _ := dns.DecodeMessage(msg.Bytes())
		q := d.Question[0]
		if failN2 && q.Name == "n2" {
			return nil, errVTransport
		}
		m := &dns.Message{QR: 1}
		idx := byte(1)
		if q.Name == "n2" {
			idx = 2
		}
		switch q.Type {
		case 1:
			m.Answer = append(m.Answer, dns.RR{Name: q.Name, Type: 1, Class: 1, TTL: 100, Data: net.IP{10, idx, 1, version}},
				dns.RR{Name: q.Name, Type: 1, Class: 1, TTL: 100, Data: net.IP{10, idx, 2, version}})
		case 28:
			m.Answer = append(m.Answer, dns.RR{Name: q.Name, Type: 28, Class: 1, TTL: 100, Data: append(net.IP{0x20, idx, 28, version}, make([]byte, 12)...)})
		}
		return m, nil
	}
	r := &Resolver{cache: newResolverCache()}
	ctx := context.Background()
	look := func(name, typ string, idx, third byte, n int) []any {
		res, err := r.resolveOne(ctx, name, typ)
		vAssert(err == nil && len(res) == n, "lookup succeeds with its own records")
		for _, v := range res {
			ip := v.(net.IP)
			vAssert(ip[1] == idx && (n == 1 || ip[2] == 1 || ip[2] == 2) && (n == 2 || ip[2] == third), "a lookup is answered with the data of its own name and type")
		}
		return res
	}
	// a symbolic order of first lookups
	order := vInt(0, 2)
	held := look("n1", "A", 1, 0, 2)
	heldCopy := []net.IP{append(net.IP{}, held[0].(net.IP)...), append(net.IP{}, held[1].(net.IP)...)}
	switch order {
	case 0:
		look("n2", "A", 2, 0, 2)
		look("n1", "AAAA", 1, 28, 1)
	case 1:
		look("n1", "AAAA", 1, 28, 1)
		look("n2", "A", 2, 0, 2)
	case 2:
		look("n2", "AAAA", 2, 28, 1)
		look("n2", "A", 2, 0, 2)
	}
	// within the TTL everything comes from the cache, each key with its own data
	before := queries
	look("n1", "A", 1, 0, 2)
	look("n2", "A", 2, 0, 2)
	vAssert(queries == before, "within the TTL both names are served from the cache")
	// n2's entry expires and its refresh fails: n1, refreshed at the same time, is not disturbed
	clock += 200
	look("n1", "A", 1, 0, 2)
	failN2 = true
	_, err := r.resolveOne(ctx, "n2", "A")
	vAssert(err != nil, "the failing name reports its failure")
	before = queries
	look("n1", "A", 1, 0, 2)
	vAssert(queries == before, "a failure for one name leaves another name's fresh entry in the cache")
	// the zone changes and n1's entry is refreshed: the result handed out earlier is untouched
	version = 2
	clock += 200
	fresh := look("n1", "A", 1, 0, 2)
	vAssert(fresh[0].(net.IP)[3] == 2, "after expiry the current data is fetched")
	vAssert(vBytesEq(held[0].(net.IP), heldCopy[0]) && vBytesEq(held[1].(net.IP), heldCopy[1]), "a result handed out earlier is not modified by a later refresh")
	vReach("keys")
}

// verifC16ZeroTTLConcurrent: two goroutines look the same name up at the same
// time (an entry that expired before both started) while the
// upstream answers with TTL 0 - not cacheable.  Such an answer is never handed
// to the lookup that waited for the entry's lock: each lookup asks upstream
// itself.  Every schedule with at most two pre-emptions at synchronisation points.
func verifC16ZeroTTLConcurrent() {
	vSchedForks(true)
	vPreemptions(2)
	clock := int64(5_000_000)
	slowClock := false
	timeNow = func() time.Time {
		if slowClock {
			vStall(5) // (lets the native replay reach the window: both lookups read the old entry before either locks it)
		}
		return time.Unix(clock, 0)
	}
	queries := 0
	dns.VerifHook_DoH = func(ctx context.Context, msg *dns.Message, URL string) (*dns.Message, error) {
		queries++
		n := queries
		vStall(20) // the upstream takes its time: the other lookup reaches the entry's lock meanwhile
		return &dns.Message{QR: 1, Answer: []dns.RR{{Name: "n1", Type: 1, Class: 1, TTL: 0, Data: net.IP{10, 0, 0, byte(n)}}}}, nil
	}
	r := &Resolver{cache: newResolverCache()}
	// an older entry that has expired (the cold-entry case is part of verifC16Race)
	_, _ = r.resolveOne(context.Background(), "n1", "A")
	clock += 1000
	queries = 0
	slowClock = true
	done := make(chan byte, 2)
	for i := 0; i < 2; i++ {
		go func() {
			res, err := r.resolveOne(context.Background(), "n1", "A")
			vAssert(err == nil && len(res) == 1, "lookup succeeds")
			done <- res[0].(net.IP)[3]
		}()
	}
	a, b := <-done, <-done
	vAssert(queries == 2, "an answer that is not cacheable is never shared: each concurrent lookup asks upstream")
	vAssert(a != b, "each lookup returns the answer it fetched itself")
	vReach("zero-ttl")
}

// verifC16Constructors: the caching clauses for resolvers as users obtain them:
// NewResolver caches, two resolvers never share answers, SetCacheSize(0)
// switches caching off, a later SetCacheSize(n) switches it on again, and a
// cache smaller than the working set still never serves a stale answer.
func verifC16Constructors() {
	clock := int64(6_000_000)
	timeNow = func() time.Time { return time.Unix(clock, 0) }
	queries := 0
	dns.VerifHook_DoH = func(ctx context.Context, msg *dns.Message, URL string) (*dns.Message, error) {
		queries++
		tag := byte(1)
		if len(URL) > 0 && URL[len(URL)-1] == 'b' {
			tag = 2
		}
		d, _ := dns.DecodeMessage(msg.Bytes())
		return &dns.Message{QR: 1, Answer: []dns.RR{{Name: d.Question[0].Name, Type: 1, Class: 1, TTL: 100, Data: net.IP{10, tag, d.Question[0].Name[0], byte(queries)}}}}, nil
	}
	ctx := context.Background()
	r1, err1 := NewResolver("https://127.0.0.1/a")
	r2, err2 := NewResolver("https://127.0.0.1/b")
	vAssert(err1 == nil && err2 == nil, "NewResolver")
	a1, _ := r1.resolveOne(ctx, "x", "A")
	n := queries
	a2, _ := r1.resolveOne(ctx, "x", "A")
	vAssert(queries == n && len(a1) == 1 && len(a2) == 1 && vBytesEq(a1[0].(net.IP), a2[0].(net.IP)), "a resolver from NewResolver serves the repeated lookup from its cache")
	b1, _ := r2.resolveOne(ctx, "x", "A")
	vAssert(queries == n+1 && len(b1) == 1 && b1[0].(net.IP)[1] == 2, "another resolver asks its own upstream: caches are not shared")
	r1.SetCacheSize(0)
	n = queries
	_, _ = r1.resolveOne(ctx, "x", "A")
	_, _ = r1.resolveOne(ctx, "x", "A")
	vAssert(queries == n+2, "with the cache switched off every lookup asks upstream")
	r1.SetCacheSize(1 + vInt(0, 1))
	n = queries
	_, _ = r1.resolveOne(ctx, "x", "A")
	_, _ = r1.resolveOne(ctx, "x", "A")
	vAssert(queries == n+1, "switched on again, the cache serves the repeated lookup")
	// a working set larger than the cache: whatever is evicted, nothing stale is served after expiry
	for _, name := range []string{"y", "z", "x"} {
		res, _ := r1.resolveOne(ctx, name, "A")
		vAssert(len(res) == 1 && res[0].(net.IP)[2] == name[0], "each name gets its own answer")
	}
	clock += 200
	n = queries
	res, _ := r1.resolveOne(ctx, "x", "A")
	vAssert(queries == n+1 && len(res) == 1 && int(res[0].(net.IP)[3]) == queries, "after expiry the answer is fetched again")
	vReach("constructors")
}

// verifC16FailureBesideSuccess: two lookups of the same name overlap; the
// upstream fails the first query it gets and answers the second (TTL 3600).
// Whatever the schedule, the failure is reported to exactly one of them, and
// the answer the other one fetched is in the cache afterwards: a third lookup
// within the TTL asks nothing.
func verifC16FailureBesideSuccess() {
	vSchedForks(true)
	vPreemptions(2)
	clock := int64(7_000_000)
	timeNow = func() time.Time { return time.Unix(clock, 0) }
	queries := 0
	dns.VerifHook_DoH = func(ctx context.Context, msg *dns.Message, URL string) (*dns.Message, error) {
		queries++
		n := queries
		vStall(20) // the upstream takes its time: the other lookup reaches the entry meanwhile
		if n == 1 {
			return &dns.Message{QR: 1, RCode: 2}, nil
		}
		return &dns.Message{QR: 1, Answer: []dns.RR{{Name: "n1", Type: 1, Class: 1, TTL: 3600, Data: net.IP{10, 0, 0, byte(n)}}}}, nil
	}
	r := &Resolver{cache: newResolverCache()}
	done := make(chan bool, 2)
	for i := 0; i < 2; i++ {
		go func() {
			res, err := r.resolveOne(context.Background(), "n1", "A")
			vAssert((err != nil) == (len(res) == 0), "a lookup returns an answer or an error")
			done <- err == nil
		}()
	}
	a, b := <-done, <-done
	vAssert(a != b && queries == 2, "exactly the lookup whose query failed reports the failure; the other one asked again and succeeded")
	clock += 10
	res, err := r.resolveOne(context.Background(), "n1", "A")
	vAssert(err == nil && len(res) == 1, "the third lookup succeeds")
	vAssert(queries == 2, "the answer fetched beside a failed lookup is in the cache: within its TTL nothing is asked again")
	vReach("failure-beside-success")
}
