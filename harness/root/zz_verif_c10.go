package ech

import (
	"context"
	"errors"
	"time"
)

var errVDeadline = errors.New("verif: i/o timeout (deadline exceeded)")

// C10: the NewConn context governs only the initial read.

// vBlockingTransport blocks in Read while no client bytes are available, until
// bytes arrive or a deadline in the past is set.
type vBlockingTransport struct {
	vTransport
	arrived    chan struct{}
	dl         chan struct{}
	past       bool
	setCalls   int
	clears     int
	syncWrites bool
}

func newVBlockingTransport() *vBlockingTransport {
	t := &vBlockingTransport{arrived: make(chan struct{}, 4), dl: make(chan struct{})}
	t.failWriteAt = -1
	return t
}

func (t *vBlockingTransport) Read(b []byte) (int, error) {
	for len(t.in)-t.rpos == 0 {
		if t.past {
			return 0, errVDeadline
		}
		select {
		case <-t.arrived:
			vStall(20) // bytes arrived; the reader is slow to pick them up
		case <-t.dl:
		}
	}
	return t.vTransport.Read(b)
}

func (t *vBlockingTransport) SetDeadline(tm time.Time) error {
	t.setCalls++
	if tm.IsZero() {
		t.clears++
		if t.past {
			t.past = false
			t.dl = make(chan struct{})
		}
		return nil
	}
	vStall(30) // the call into the connection may be slow: other goroutines run meanwhile
	if !t.past {
		t.past = true
		close(t.dl)
	}
	return nil
}

func (t *vBlockingTransport) deliver(b []byte) {
	t.in = append(t.in, b...)
	t.arrived <- struct{}{}
}

func vPlainHello() []byte {
	h := vHello{version: 0x0303, random: make([]byte, 32), suites: []byte{0x13, 0x01}, comp: []byte{0},
		exts: []vExt{vSNI([]byte("a.example")), vVersions(0x0304)}}
	return h.record()
}

// verifC10AfterReturn: the hello is already buffered; the context is cancelled
// at a symbolic moment after NewConn returned; every schedule of the watcher
// goroutine and every select choice is explored.
func verifC10AfterReturn() {
	vSchedForks(true)
	tr := newVBlockingTransport()
	tr.in = vPlainHello()
	ctx, cancel := context.WithCancel(context.Background())
	c, err := NewConn(ctx, tr)
	vAssert(err == nil, "NewConn succeeds when the hello is available")
	if vBool() {
		vYield() // the watcher may run before the cancellation...
	}
	cancel()
	left := vQuiesce() // ...or after it
	vAssert(!tr.past, "cancelling the context after NewConn returned leaves no deadline on the connection")
	buf := make([]byte, 256)
	n, err := c.Read(buf)
	vAssert(n > 0 && err == nil, "I/O after a successful NewConn is unaffected by the cancelled context")
	vAssert(left == 0, "the watcher goroutine has terminated")
	vReach("after-return")
}

// verifC10WhileBlocked: the client stalls; the context ends while NewConn is
// blocked (or the hello arrives first, in a symbolic order).
func verifC10WhileBlocked() {
	vSchedForks(true)
	tr := newVBlockingTransport()
	ctx, cancel := context.WithCancel(context.Background())
	hello := vPlainHello()
	part := vInt(0, 2) // bytes of the hello that arrive before the stall: none, the header, all but one
	cut := []int{0, 5, len(hello) - 1}[part]
	tr.in = append(tr.in, hello[:cut]...)
	helloFirst := vBool()
	go func() {
		if helloFirst {
			tr.deliver(hello[cut:])
			vYield()
			cancel()
		} else {
			cancel()
		}
	}()
	c, err := NewConn(ctx, tr)
	if !helloFirst {
		vAssert(err != nil, "a context that ends while NewConn is blocked makes it fail")
		vReach("cancelled")
		return
	}
	// the hello was delivered, then the context was cancelled at some point
	if err == nil {
		vQuiesce()
		vAssert(!tr.past, "a successful NewConn leaves no deadline behind, whenever the context was cancelled")
		buf := make([]byte, 256)
		n, rerr := c.Read(buf)
		vAssert(n > 0 && rerr == nil, "I/O after a successful NewConn works")
		vReach("ok")
	} else {
		vReach("lost-race")
	}
}

// Write blocks (a client that is not reading, on a synchronous transport)
// until the deadline has passed.
func (t *vBlockingTransport) Write(b []byte) (int, error) {
	if !t.syncWrites {
		return t.vTransport.Write(b)
	}
	for !t.past {
		<-t.dl
	}
	return 0, errVDeadline
}

// verifC10Stall (C08 deadline clause): the client stalls in the middle of the
// first record and does not read either; when the context ends NewConn must
// return (with an error) - it must not block on its own alert.
func verifC10Stall() {
	vSchedForks(true)
	tr := newVBlockingTransport()
	tr.syncWrites = true
	hello := vPlainHello()
	cut := []int{0, 3, 5, len(hello) - 1}[vInt(0, 3)]
	tr.in = append(tr.in, hello[:cut]...)
	ctx, cancel := context.WithCancel(context.Background())
	go cancel()
	_, err := NewConn(ctx, tr)
	vAssert(err != nil, "a stalled client and an ended context make NewConn fail")
	vReach("stall-returned")
}
