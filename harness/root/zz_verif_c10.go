package ech

import (
	"context"
	"errors"
	"time"
)

var errVDeadline = errors.New("verif: i/o timeout (deadline exceeded)")

// C10: the NewConn context governs only the initial read.

// vBlockingTransport blocks in Read while no client bytes are available, until
// bytes arrive or a deadline in the past is set.
type vBlockingTransport struct {
	vTransport
	arrived    chan struct{}
	dl         chan struct{}
	past       bool
	setCalls   int
	clears     int
	nonzero    int       // deadlines other than "none" that were ever installed
	deadline   time.Time // a deadline in the future that is currently installed
	gen        int
	syncWrites bool
}

func newVBlockingTransport() *vBlockingTransport {
	t := &vBlockingTransport{arrived: make(chan struct{}, 4), dl: make(chan struct{})}
	t.failWriteAt = -1
	return t
}

func (t *vBlockingTransport) Read(b []byte) (int, error) {
	for len(t.in)-t.rpos == 0 {
		if t.past {
			return 0, errVDeadline
		}
		select {
		case <-t.arrived:
			vStall(20) // bytes arrived; the reader is slow to pick them up
		case <-t.dl:
		}
	}
	return t.vTransport.Read(b)
}

func (t *vBlockingTransport) SetDeadline(tm time.Time) error {
	t.setCalls++
	t.gen++
	if tm.IsZero() {
		t.clears++
		t.deadline = time.Time{}
		if t.past {
			t.past = false
			t.dl = make(chan struct{})
		}
		return nil
	}
	t.nonzero++
	vStall(30) // the call into the connection may be slow: other goroutines run meanwhile
	if tm.After(time.Now()) {
		// a deadline in the future takes effect when (virtual) time reaches it
		t.deadline = tm
		gen := t.gen
		time.AfterFunc(time.Until(tm), func() {
			if t.gen == gen {
				t.expire()
			}
		})
		return nil
	}
	t.expire()
	return nil
}

// A half-deadline is a deadline too (seed C10j copied the context's deadline
// onto the transport with SetReadDeadline, which the embedded vTransport
// ignored).  Both are modelled as the full deadline: every assertion below
// counts any non-zero deadline, whichever method installed it.
func (t *vBlockingTransport) SetReadDeadline(tm time.Time) error  { return t.SetDeadline(tm) }
func (t *vBlockingTransport) SetWriteDeadline(tm time.Time) error { return t.SetDeadline(tm) }

func (t *vBlockingTransport) expire() {
	t.deadline = time.Time{}
	if !t.past {
		t.past = true
		close(t.dl)
	}
}

func (t *vBlockingTransport) deliver(b []byte) {
	t.in = append(t.in, b...)
	t.arrived <- struct{}{}
}

func vPlainHello() []byte {
	h := vHello{version: 0x0303, random: make([]byte, 32), suites: []byte{0x13, 0x01}, comp: []byte{0},
		exts: []vExt{vSNI([]byte("a.example")), vVersions(0x0304)}}
	return h.record()
}

// verifC10AfterReturn: the hello is already buffered; the context is cancelled
// at a symbolic moment after NewConn returned; every schedule of the watcher
// goroutine and every select choice is explored.
func verifC10AfterReturn() {
	vSchedForks(true)
	tr := newVBlockingTransport()
	tr.in = vPlainHello()
	ctx, cancel := context.WithCancel(context.Background())
	c, err := NewConn(ctx, tr)
	vAssert(err == nil, "NewConn succeeds when the hello is available")
	if vBool() {
		vYield() // the watcher may run before the cancellation...
	}
	if vBool() {
		cancel()
	} // (or the context is never cancelled: the watcher must still go away)
	left := vQuiesce() // ...or after it
	vAssert(!tr.past, "cancelling the context after NewConn returned leaves no deadline on the connection")
	vAssert(tr.nonzero == 0, "the watcher never touches the connection's deadline once NewConn has returned")
	buf := make([]byte, 256)
	n, err := c.Read(buf)
	vAssert(n > 0 && err == nil, "I/O after a successful NewConn is unaffected by the cancelled context")
	rec := vRecord(23, 0x0303, []byte{1, 2})
	tr.deliver(rec)
	n, err = c.Read(buf)
	vAssert(n == len(rec) && err == nil, "a later Read that reaches the transport works")
	n, err = c.Write(rec)
	vAssert(n == len(rec) && err == nil, "a later Write works")
	vAssert(left == 0, "the watcher goroutine has terminated")
	cancel()
	vReach("after-return")
}

// verifC10WhileBlocked: the client stalls; the context ends while NewConn is
// blocked (or the hello arrives first, in a symbolic order).
func verifC10WhileBlocked() {
	vSchedForks(true)
	tr := newVBlockingTransport()
	ctx, cancel := context.WithCancel(context.Background())
	hello := vPlainHello()
	part := vInt(0, 2) // bytes of the hello that arrive before the stall: none, the header, all but one
	cut := []int{0, 5, len(hello) - 1}[part]
	tr.in = append(tr.in, hello[:cut]...)
	helloFirst := vBool()
	go func() {
		if helloFirst {
			tr.deliver(hello[cut:])
			vYield()
			cancel()
		} else {
			cancel()
		}
	}()
	c, err := NewConn(ctx, tr)
	if !helloFirst {
		vAssert(err != nil, "a context that ends while NewConn is blocked makes it fail")
		vReach("cancelled")
		return
	}
	// the hello was delivered, then the context was cancelled at some point
	if err == nil {
		left := vQuiesce()
		vAssert(left == 0, "no goroutine is left behind by a successful NewConn")
		vAssert(!tr.past, "a successful NewConn leaves no deadline behind, whenever the context was cancelled")
		buf := make([]byte, 256)
		n, rerr := c.Read(buf)
		vAssert(n > 0 && rerr == nil, "I/O after a successful NewConn works")
		vReach("ok")
	} else {
		vReach("lost-race")
	}
}

// Write blocks (a client that is not reading, on a synchronous transport)
// until the deadline has passed.
func (t *vBlockingTransport) Write(b []byte) (int, error) {
	if !t.syncWrites {
		return t.vTransport.Write(b)
	}
	for !t.past {
		<-t.dl
	}
	return 0, errVDeadline
}

// verifC10Stall (C08 deadline clause): the client stalls in the middle of the
// first record and does not read either; when the context ends NewConn must
// return (with an error) - it must not block on its own alert.
func verifC10Stall() {
	vSchedForks(true)
	tr := newVBlockingTransport()
	tr.syncWrites = true
	hello := vPlainHello()
	cut := []int{0, 3, 5, len(hello) - 1}[vInt(0, 3)]
	tr.in = append(tr.in, hello[:cut]...)
	ctx, cancel := context.WithCancel(context.Background())
	go cancel()
	_, err := NewConn(ctx, tr)
	vAssert(err != nil, "a stalled client and an ended context make NewConn fail")
	vReach("stall-returned")
}

// verifC10Timeout: a context with a deadline (context.WithTimeout) instead of a
// cancel function.  (a) The hello is available: NewConn returns at once, no
// deadline is ever installed on the connection, and when the context's deadline
// passes later the connection is still usable in both directions.  (b) The
// client stalls: NewConn fails no later than the context's deadline plus the
// modelled stalls.
func verifC10Timeout() {
	vSchedForks(true)
	tr := newVBlockingTransport()
	const timeout = 200 * time.Millisecond
	start := vNowNanos()
	ctx, cancel := context.WithTimeout(context.Background(), timeout)
	defer cancel()
	hello := vPlainHello()
	if vBool() {
		tr.in = hello
		c, err := NewConn(ctx, tr)
		vAssert(err == nil, "NewConn succeeds when the hello is available")
		vAssert(tr.nonzero == 0, "no deadline is installed on the connection while the context is alive")
		vAdvance(int64(2 * timeout)) // the context's deadline passes now
		vQuiesce()
		vAssert(!tr.past && tr.deadline.IsZero(), "the context's deadline does not govern the connection after NewConn returned")
		buf := make([]byte, 256)
		n, rerr := c.Read(buf)
		vAssert(n == len(hello) && rerr == nil, "the hello is readable")
		rec := vRecord(23, 0x0303, []byte{1, 2})
		tr.deliver(rec)
		n, rerr = c.Read(buf)
		vAssert(n == len(rec) && rerr == nil, "a later Read that reaches the transport works")
		n, werr := c.Write(rec)
		vAssert(n == len(rec) && werr == nil, "a later Write works")
		vReach("timeout-after-return")
		return
	}
	cut := []int{0, 5, len(hello) - 1}[vInt(0, 2)]
	tr.in = append(tr.in, hello[:cut]...)
	if vBool() {
		// a context whose own deadline is far away is cancelled early: NewConn fails at the
		// cancellation, it does not wait for the deadline
		far := time.Hour
		if !vSymbolic() {
			far = 1500 * time.Millisecond // (natively: beyond the 1 s allowed below, well within the replay watchdog)
		}
		ctx2, cancel2 := context.WithTimeout(context.Background(), far)
		defer cancel2()
		go func() {
			time.Sleep(50 * time.Millisecond)
			cancel2()
		}()
		_, err2 := NewConn(ctx2, tr)
		elapsed2 := vNowNanos() - start
		vAssert(err2 != nil, "a stalled client makes NewConn fail when the context is cancelled")
		allowed := int64(50 * time.Millisecond) // virtual time: exactly at the cancellation
		if !vSymbolic() {
			allowed = int64(time.Second)
		}
		vAssert(elapsed2 <= allowed, "NewConn fails at the cancellation, not at the context's distant deadline")
		vReach("timeout-stalled")
		return
	}
	_, err := NewConn(ctx, tr)
	elapsed := vNowNanos() - start
	vAssert(err != nil, "a stalled client makes NewConn fail when the context's deadline passes")
	if vSymbolic() {
		vAssert(elapsed <= int64(timeout), "NewConn fails promptly: no later than the context's deadline (virtual time)")
	} else {
		vAssert(elapsed <= int64(timeout+3*time.Second), "NewConn fails promptly")
	}
	vReach("timeout-stalled")
}

// verifC10Accepted: the same clause on an inspected connection (ECH accepted, so
// Read keeps parsing records): the context is cancelled after NewConn returned;
// the following reads of the relay - a change_cipher_spec record, then, after a
// HelloRetryRequest, the retried hello - and the writes still work, and no
// deadline is ever installed.
func verifC10Accepted() {
	vSchedForks(true)
	tr := newVBlockingTransport()
	name := []byte("pub.example")
	k := vMakeKey(0, 7, [][2]uint16{{1, 1}}, name)
	outer := vHello{version: 0x0303, random: make([]byte, 32), sid: []byte{9}, suites: []byte{0x13, 0x01}, comp: []byte{0}}
	outer.exts = []vExt{vSNI(name), vVersions(0x0304), {51, []byte{1}}, {0xfe0d, nil}}
	inner := vHello{version: 0x0303, random: make([]byte, 32), suites: []byte{0x13, 0x02}, comp: []byte{0},
		exts: []vExt{vSNI([]byte("in")), vECHInner(), vVersions(0x0304)}}
	s := vSeal(k, 1, 1, outer, 3, vEncodeInner(inner, 0))
	tr.in = s.outer.record()
	ctx, cancel := context.WithCancel(context.Background())
	c, err := NewConn(ctx, tr, WithKeys([]Key{k.key()}))
	vAssert(err == nil && c.ECHAccepted(), "accepted")
	if vBool() {
		vYield()
	}
	cancel()
	left := vQuiesce()
	vAssert(left == 0 && tr.nonzero == 0 && !tr.past, "the cancelled context leaves the inspected connection alone")
	buf := make([]byte, 600)
	n, rerr := c.Read(buf) // the rewritten hello
	vAssert(n > 0 && rerr == nil, "the rewritten hello is readable")
	ccs := vRecord(20, 0x0303, []byte{1})
	tr.deliver(ccs)
	n, rerr = c.Read(buf)
	vAssert(n == len(ccs) && rerr == nil, "an inspected Read after the cancellation works")
	hrr := vServerHello(vHRRRandom, outer.sid)
	n, werr := c.Write(hrr)
	vAssert(n == len(hrr) && werr == nil, "an inspected Write after the cancellation works")
	inner2 := inner
	inner2.exts = []vExt{vSNI([]byte("in")), vECHInner(), vVersions(0x0304), {51, []byte{2}}}
	outer2 := outer
	outer2.exts = []vExt{vSNI(name), vVersions(0x0304), {51, []byte{2, 2}}, {0xfe0d, nil}}
	s2 := vSealWith(s.sender, []byte{}, k.id, 1, 1, outer2, 3, vEncodeInner(inner2, 0))
	tr.deliver(s2.outer.record())
	n, rerr = c.Read(buf)
	vAssert(n > 0 && rerr == nil, "the retried hello is processed after the cancellation")
	vAssert(tr.nonzero == 0 && !tr.past, "no deadline was installed by any of it")
	vReach("accepted-after-cancel")
}

// verifC10CancelledAtEntry: the context has already ended when NewConn is called
// and the whole hello is available: whatever NewConn decides, a connection it
// returns carries no deadline and works; a failure is a clean one.
func verifC10CancelledAtEntry() {
	vSchedForks(true)
	tr := newVBlockingTransport()
	hello := vPlainHello()
	tr.in = hello
	ctx, cancel := context.WithCancel(context.Background())
	cancel()
	c, err := NewConn(ctx, tr)
	left := vQuiesce()
	vAssert(left == 0, "no goroutine is left behind")
	if err != nil {
		vAssert(tr.closed, "a failed NewConn ends the stream")
		vReach("entry-failed")
		return
	}
	vAssert(!tr.past, "a connection returned under an already cancelled context carries no expired deadline")
	buf := make([]byte, 256)
	n, rerr := c.Read(buf)
	vAssert(n == len(hello) && rerr == nil, "the hello is readable")
	rec := vRecord(23, 0x0303, []byte{1, 2})
	tr.deliver(rec)
	n, rerr = c.Read(buf)
	vAssert(n == len(rec) && rerr == nil, "later reads work")
	n, werr := c.Write(rec)
	vAssert(n == len(rec) && werr == nil, "later writes work")
	vReach("entry-ok")
}
