package ech

import (
	"fmt"
	"context"
	"crypto/tls"
	"errors"
	"net"
	"net/netip"

	"github.com/c2FmZQ/ech/dns"
)

// C17: Dial never weakens the caller's ECH or server-name requirements.

type vDialConn struct {
	addr   string
	closed bool
}

func (c *vDialConn) Close() error { c.closed = true; return nil }

type vDialCall struct {
	addr       string
	serverName string
	ech        []byte
	echNil     bool
}

// verifC17Dial: symbolic RequireECH / PublicName / caller config; a result with up
// to 3 targets from up to 2 HTTPS records (ECH on a symbolic subset); per-call
// outcomes: ok, error, ECH rejection with / without retry configs.
func verifC17Dial() {
	host := "h.example"
	requireECH := vBool()
	publicName := ""
	if vBool() {
		publicName = "pub.example"
	}
	var callerECH []byte
	switch vInt(0, 2) {
	case 1:
		callerECH = []byte{0xCA, 0x11}
	case 2:
		callerECH = []byte{} // an empty list is no list: it must not switch ECH off
	}
	callerSN := ""
	if vBool() {
		callerSN = "caller.example"
	}
	callerECHSnap := append([]byte(nil), callerECH...) // the list as the caller wrote it
	tc := &tls.Config{ServerName: callerSN, EncryptedClientHelloConfigList: callerECH, NextProtos: []string{"h2"}, MinVersion: tls.VersionTLS13}
	wrapErr := vBool()

	// resolution result: record 0 -> address 10.0.0.1, record 1 -> target t1 -> 10.0.0.2; plain address 10.0.0.1
	res := ResolveResult{Port: 443, Address: []net.IP{{10, 0, 0, 1}}, Additional: map[string][]net.IP{"t1.example": {{10, 0, 0, 2}}}}
	echOf := map[string][]byte{}
	nh := vInt(0, 2)
	for i := 0; i < nh; i++ {
		h := dns.HTTPS{Priority: uint16(i + 1)}
		addr := "10.0.0.1:443"
		if i == 1 {
			h.Target = "t1.example"
			addr = "10.0.0.2:443"
		}
		switch vInt(0, 2) {
		case 1:
			h.ECH = []byte{0xD0, byte(i)}
		case 2:
			h.ECH = []byte{} // an "ech" parameter with an empty value: no usable config list
		}
		echOf[addr] = append([]byte(nil), h.ECH...) // snapshot: the record's bytes must never change either
		res.HTTPS = append(res.HTTPS, h)
	}
	retryList := []byte{0x4E, 0x77}
	var calls []vDialCall
	lastOutcome := -1
	d := &Dialer[*vDialConn]{RequireECH: requireECH, PublicName: publicName, MaxConcurrency: 1}
	if vBool() {
		// a resolver of the Dialer's own must not take precedence over the resolution handed down in the context
		d.Resolver = &Resolver{}
		dns.VerifHook_DoH = func(ctx context.Context, msg *dns.Message, URL string) (*dns.Message, error) {
			vFail("the Dialer resolves nothing itself when the context carries the resolution")
			return nil, errVTransport
		}
	}
	d.DialFunc = func(ctx context.Context, network, addr string, c *tls.Config) (*vDialConn, error) {
		ech := c.EncryptedClientHelloConfigList
		calls = append(calls, vDialCall{addr: addr, serverName: c.ServerName, ech: append([]byte{}, ech...), echNil: ech == nil})
		vAssert(!requireECH || len(ech) > 0, "RequireECH: no attempt without an ECH config list (an empty list is none)")
		if callerSN != "" {
			vAssert(c.ServerName == callerSN, "caller-supplied ServerName is never replaced")
		} else {
			vAssert(c.ServerName == host, "TLS server name is the host the caller named")
		}
		prevRetry := lastOutcome == 2 && len(calls) >= 2 && calls[len(calls)-2].addr == addr
		if prevRetry {
			vAssert(vBytesEq(ech, retryList), "the retry uses exactly the server's retry configs")
		} else if len(callerECH) > 0 {
			vAssert(vBytesEq(ech, callerECHSnap), "caller-supplied ECH config list is never replaced")
		} else if rec, ok := echOf[addr]; ok && len(rec) > 0 {
			vAssert(vBytesEq(ech, rec), "ECH config list is the one of the HTTPS record that produced the address")
		} else if publicName == "" {
			vAssert(len(ech) == 0, "no ECH config list invented")
		} else {
			// PublicName path: a bootstrap list naming exactly the public name
			specs, perr := ParseConfigList(ech)
			vAssert(perr == nil && len(specs) == 1 && string(specs[0].PublicName) == publicName, "PublicName bootstrap: one well-formed config naming the public name")
		}
		vAssert(len(c.NextProtos) == 1 && c.NextProtos[0] == "h2" && c.MinVersion == tls.VersionTLS13, "the caller's other TLS settings reach every attempt")
		if lastOutcome == 2 && !prevRetry {
			vFail("a rejection that carries retry configs is followed by one retry to the same address")
		}
		out := vInt(0, 3)
		lastOutcome = out
		wrap := func(e error) error {
			if wrapErr {
				return fmt.Errorf("dial %s: %w", addr, e) // dial functions may wrap the TLS error
			}
			return e
		}
		switch out {
		case 0:
			return &vDialConn{addr: addr}, nil
		case 1:
			return nil, errVTransport
		case 2:
			if prevRetry {
				// a hostile server answers the retry with yet another retry list
				lastOutcome = 3
				return nil, wrap(&tls.ECHRejectionError{RetryConfigList: []byte{0x4E, 0x78}})
			}
			return nil, wrap(&tls.ECHRejectionError{RetryConfigList: retryList})
		}
		return nil, wrap(&tls.ECHRejectionError{})
	}
	ctx := context.WithValue(context.Background(), transportResolverKey, &transportResolver{host: host, result: res})
	conn, err := d.Dial(ctx, "tcp", host+":443", tc)
	vReach("dialed")
	vAssert(lastOutcome != 2, "a rejection that carries retry configs is followed by one retry to the same address")
	vAssert((conn != nil) == (err == nil), "a connection or an error")
	// retry discipline: a rejection with retry configs is followed by exactly one more call to the same address
	for i, c := range calls {
		_ = c
		if i+2 < len(calls) {
			vAssert(!(calls[i].addr == calls[i+1].addr && calls[i+1].addr == calls[i+2].addr), "at most one retry per address")
		}
	}
	vAssert(tc.ServerName == callerSN && vBytesEq(tc.EncryptedClientHelloConfigList, callerECHSnap) && (tc.EncryptedClientHelloConfigList == nil) == (callerECH == nil) && len(tc.NextProtos) == 1, "the caller's tls.Config (and the bytes it refers to) is not mutated")
	for i, h := range res.HTTPS {
		addr := "10.0.0.1:443"
		if i == 1 {
			addr = "10.0.0.2:443"
		}
		vAssert(vBytesEq(h.ECH, echOf[addr]), "the resolution result's ECH config lists are not modified")
	}
	if err == nil {
		vReach("connected")
	} else {
		vAssert(!errors.Is(err, context.Canceled), "no spurious cancellation")
		vReach("failed")
	}
	_ = netip.Addr{}
}

// verifC17ResolverPath: the same rules when the target list comes from a real
// Resolver (DoH seam) and a comma-separated address list: the TLS server name
// is the host part of the address the caller named, never an alias or target.
func verifC17ResolverPath() {
	dns.VerifHook_DoH = func(ctx context.Context, msg *dns.Message, URL string) (*dns.Message, error) {
		d, _ := dns.DecodeMessage(msg.Bytes())
		q := d.Question[0]
		m := &dns.Message{QR: 1}
		switch {
		case q.Type == 65 && q.Name == "h1.example":
			m.Answer = append(m.Answer, dns.RR{Name: q.Name, Type: 65, Class: 1, TTL: 60, Data: dns.HTTPS{Priority: 0, Target: "alias.example"}})
		case q.Type == 65 && q.Name == "alias.example":
			m.Answer = append(m.Answer, dns.RR{Name: q.Name, Type: 65, Class: 1, TTL: 60, Data: dns.HTTPS{Priority: 1, Target: "svc.example", ECH: []byte{0xD1}}})
		case q.Type == 1:
			m.Answer = append(m.Answer, dns.RR{Name: q.Name, Type: 1, Class: 1, TTL: 60, Data: net.IP{10, 0, byte(len(q.Name)), q.Name[1]}}) // distinct per name
		}
		return m, nil
	}
	requireECH := vBool()
	var hosts []string
	d := &Dialer[*vDialConn]{RequireECH: requireECH, Resolver: &Resolver{}, MaxConcurrency: 1}
	d.DialFunc = func(ctx context.Context, network, addr string, c *tls.Config) (*vDialConn, error) {
		hosts = append(hosts, c.ServerName)
		vAssert(c.ServerName == "h1.example" || c.ServerName == "h2.example", "TLS server name is a host the caller named, never a DNS alias or target")
		vAssert(!requireECH || c.EncryptedClientHelloConfigList != nil, "RequireECH: no attempt without an ECH config list")
		if c.ServerName == "h1.example" {
			vAssert(vBytesEq(c.EncryptedClientHelloConfigList, []byte{0xD1}), "ECH list of the record that produced the address")
		}
		// the server name is bound to the address: h1's service lives at svc.example, h2 has plain addresses
		host, _, _ := net.SplitHostPort(addr)
		ip := net.ParseIP(host).To4()
		vAssert(ip != nil, "a resolved address is dialled")
		if ip != nil {
			if ip[3] == 'v' { // sVc.example
				vAssert(c.ServerName == "h1.example", "an address of h1's service target is dialled under h1's name")
			} else {
				vAssert(ip[3] == '2' && c.ServerName == "h2.example" && c.EncryptedClientHelloConfigList == nil, "an address of h2 is dialled under h2's name, without ECH")
			}
		}
		if vBool() {
			return nil, errVTransport
		}
		return &vDialConn{addr: addr}, nil
	}
	addr := []string{"h1.example:443", "h1.example:443, h2.example:8443", "h2.example:443,h1.example"}[vInt(0, 2)]
	conn, err := d.Dial(context.Background(), "tcp", addr, nil)
	vAssert((conn != nil) == (err == nil), "a connection or an error")
	vReach("resolver-path")
}

// verifC17AddressForms: the TLS server name is the host part of what the caller
// named, for every form of address: IP literals with and without brackets or
// port, a name with a trailing dot, padded list entries; a name that fails to
// resolve does not stop the remaining names of the list from being tried.
func verifC17AddressForms() {
	dns.VerifHook_DoH = func(ctx context.Context, msg *dns.Message, URL string) (*dns.Message, error) {
		d, _ := dns.DecodeMessage(msg.Bytes())
		q := d.Question[0]
		m := &dns.Message{QR: 1}
		if q.Name == "bad.example" {
			m.RCode = 2
			return m, nil
		}
		if q.Type == 1 {
			m.Answer = append(m.Answer, dns.RR{Name: q.Name, Type: 1, Class: 1, TTL: 60, Data: net.IP{10, 0, 0, 5}})
		}
		return m, nil
	}
	forms := []struct{ addr, sn, dial string }{
		{"[2001:db8::1]:443", "2001:db8::1", "[2001:db8::1]:443"},
		{"192.0.2.7:8443", "192.0.2.7", "192.0.2.7:8443"},
		{"h1.example.:443", "h1.example.", "10.0.0.5:443"},
		{" h2.example:8443 ", "h2.example", "10.0.0.5:8443"},
		{"bad.example:443,h2.example:443", "h2.example", "10.0.0.5:443"},
		{"192.0.2.7", "192.0.2.7", "192.0.2.7:443"},
	}
	f := forms[vInt(0, len(forms)-1)]
	var calls []vDialCall
	d := &Dialer[*vDialConn]{Resolver: &Resolver{}, MaxConcurrency: 1}
	d.DialFunc = func(ctx context.Context, network, addr string, c *tls.Config) (*vDialConn, error) {
		calls = append(calls, vDialCall{addr: addr, serverName: c.ServerName})
		return nil, errVTransport
	}
	_, err := d.Dial(context.Background(), "tcp", f.addr, nil)
	vAssert(err != nil, "every attempt fails here")
	vAssert(len(calls) == 1 && calls[0].addr == f.dial, "the named address is dialled (a name that does not resolve does not stop the others)")
	if len(calls) == 1 {
		vAssert(calls[0].serverName == f.sn, "the TLS server name is the host part of the address the caller named")
	}
	if f.addr[0] == 'b' {
		vAssert(errors.Is(err, ErrServerFailure), "the resolution failure of the other name is part of the returned error")
	}
	vAssert(vQuiesce() == 0, "no goroutine is left behind (a name that failed to resolve included)")
	vReach("address-forms")
}
