package ech

import (
	"context"
	"crypto/tls"
	"net"
	"time"
)

// C18: Dial attempts are ordered, bounded and leak-free; the first success wins.

const vUnit = int64(20 * time.Millisecond)

type vAttempt struct {
	addr     string
	start    int64
	end      int64
	startSeq int // position of the start / end event in the global event order
	endSeq   int
	outcome  int // 0 succeed, 1 fail, 2 hang until the context ends
	ctxDead  bool
	ctxEnded bool // the attempt ended because its context did
	conn     *vDialConn
	returned bool
}

// verifC18Dial: 1..3 targets, MaxConcurrency 1..2, per-attempt outcome
// {succeed, fail, hang} after a duration from a small grid, optional caller
// cancellation, in virtual time; select choices are always forked.
func verifC18Dial() {
	nt := vInt(1, 3+vTier())
	maxc := vInt(1, 2+vTier())
	delay := 4 * vUnit
	timeout := 10 * vUnit
	res := ResolveResult{Port: 443}
	for i := 0; i < nt; i++ {
		res.Address = append(res.Address, net.IP{10, 0, 0, byte(i + 1)})
	}
	var atts []*vAttempt
	evt := 0
	inflight, maxInflight := 0, 0
	t0 := vNowNanos()
	outcomes := make([]int, nt)
	durs := make([]int64, nt)
	for i := range outcomes {
		outcomes[i] = vInt(0, 2)
		durs[i] = int64([]int{0, 2, 6, 12}[vInt(0, 2+vTier())]) * vUnit
	}
	d := &Dialer[*vDialConn]{MaxConcurrency: maxc, ConcurrencyDelay: time.Duration(delay), Timeout: time.Duration(timeout)}
	d.DialFunc = func(ctx context.Context, network, addr string, c *tls.Config) (*vDialConn, error) {
		idx := len(atts)
		a := &vAttempt{addr: addr, start: vNowNanos() - t0, outcome: outcomes[idx%nt], ctxDead: ctx.Err() != nil}
		evt++
		a.startSeq = evt
		atts = append(atts, a)
		inflight++
		if inflight > maxInflight {
			maxInflight = inflight
		}
		defer func() {
			inflight--
			a.end = vNowNanos() - t0
			evt++
			a.endSeq = evt
			a.returned = true
		}()
		if a.ctxDead {
			return nil, ctx.Err() // a well-behaved dial function honours its context
		}
		if a.outcome == 2 {
			<-ctx.Done()
			a.ctxEnded = true
			return nil, ctx.Err()
		}
		select {
		case <-time.After(time.Duration(durs[idx%nt])):
		case <-ctx.Done():
			a.ctxEnded = true
			return nil, ctx.Err()
		}
		if a.outcome == 1 {
			return nil, errVTransport
		}
		a.conn = &vDialConn{addr: addr}
		return a.conn, nil
	}
	ctx := context.WithValue(context.Background(), transportResolverKey, &transportResolver{host: "h.example", result: res})
	cancelAt := int64(-1)
	stopSleeper := make(chan struct{})
	var cancel context.CancelFunc
	if vBool() {
		cancelAt = int64(vInt(0, 2)) * 3 * vUnit
		ctx, cancel = context.WithCancel(ctx)
		go func() {
			select {
			case <-time.After(time.Duration(cancelAt)):
				cancel()
			case <-stopSleeper:
			}
		}()
	}
	conn, err := d.Dial(ctx, "tcp", "h.example:443", nil)
	tEnd := vNowNanos() - t0
	evt++
	retSeq := evt // position of Dial's return in the event order
	vReach("returned")
	vAssert((conn != nil) == (err == nil), "a connection or an error")
	vAssert(maxInflight <= maxc, "never more than MaxConcurrency attempts in flight")
	// start order = target order
	for i, a := range atts {
		want := net.JoinHostPort(net.IP{10, 0, 0, byte(i + 1)}.String(), "443")
		vAssert(a.addr == want, "attempts start in target order")
	}
	// staggering: an attempt may start earlier than ConcurrencyDelay after the previous
	// start only when a failure woke the feeder, and every such early start needs a
	// failure of its own (a failure wakes the feeder at most once; the wake-up may
	// be delivered after the previous attempt was handed to a worker)
	early := 0
	for i := 1; i < len(atts); i++ {
		if atts[i].ctxDead {
			continue // begun after the outcome was decided: must simply see a cancelled context
		}
		if atts[i].start >= atts[i-1].start+delay-vUnit/2 {
			continue
		}
		early++
		failures := 0
		for j := 0; j < len(atts); j++ {
			if atts[j].returned && atts[j].conn == nil && atts[j].endSeq < atts[i].startSeq {
				failures++
			}
		}
		vAssert(early <= failures, "the next attempt starts only after ConcurrencyDelay, or after an earlier failure of its own")
	}
	for _, a := range atts {
		if a.outcome == 2 && a.returned && !a.ctxDead && vSymbolic() {
			vAssert(a.end-a.start <= timeout, "each attempt is bounded by Timeout")
		}
	}
	// ... and by nothing shorter: an attempt's context ends (or is already dead when the
	// attempt begins) only once Timeout has passed since the attempt began, the caller
	// cancelled, another attempt succeeded, or Dial returned
	for _, a := range atts {
		if !a.ctxDead && !(a.ctxEnded && a.returned) {
			continue
		}
		at, seq := a.start, a.startSeq
		if !a.ctxDead {
			at, seq = a.end, a.endSeq
		}
		// (event order, not time, separates cause from effect within one virtual instant)
		legit := at-a.start >= timeout || (cancelAt >= 0 && cancelAt <= at) || retSeq < seq
		for _, b := range atts {
			if b != a && b.conn != nil && b.returned && b.endSeq < seq {
				legit = true
			}
		}
		vAssert(legit, "an attempt's context ends only after Timeout from its own start, caller cancellation, a success, or Dial's return")
	}
	if err == nil {
		// the first success wins (in time order of completion)
		for _, a := range atts {
			if a.conn != nil && a.conn != conn && a.returned && vSymbolic() {
				vAssert(a.end >= 0, "losers are accounted for")
			}
		}
		vReach("connected")
	} else if cancelAt >= 0 && tEnd >= cancelAt && ctx.Err() != nil {
		if vSymbolic() {
			vAssert(tEnd <= cancelAt || err != nil, "returns on cancellation")
		}
		vReach("cancelled")
	} else {
		vReach("all-failed")
	}
	close(stopSleeper)
	if cancel != nil {
		cancel()
	}
	// quiescence: once outstanding attempts have returned no goroutine is left,
	// and every other established connection has been closed
	left := vQuiesce()
	if vSymbolic() {
		vAssert(left == 0, "no goroutine left behind once outstanding attempts returned")
	}
	for _, a := range atts {
		if a.conn != nil && a.conn != conn {
			vAssert(a.conn.closed, "every other established connection is closed")
		}
		if a.start > tEnd {
			vAssert(a.ctxDead, "an attempt begun after the outcome was decided runs under a cancelled context")
		}
	}
	vReach("quiesced")
}
