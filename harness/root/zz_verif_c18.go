package ech

import (
	"errors"
	"context"
	"crypto/tls"
	"net"
	"time"
)

// C18: Dial attempts are ordered, bounded and leak-free; the first success wins.

const vUnit = int64(20 * time.Millisecond)

type vAttempt struct {
	addr     string
	start    int64
	end      int64
	startSeq int // position of the start / end event in the global event order
	endSeq   int
	outcome  int // 0 succeed, 1 fail, 2 hang until the context ends, 3 succeed after its time without watching the context
	ctxDead  bool
	ctxEnded bool // the attempt ended because its context did
	conn     *vDialConn
	returned bool
}

// verifC18Dial: 1..3 targets, MaxConcurrency 1..2, per-attempt outcome
// {succeed, fail, hang} after a duration from a small grid, optional caller
// cancellation, in virtual time; select choices are always forked.
func verifC18Dial() {
	nt := vInt(0, 3+vTier())
	maxc := vInt(1, 2+vTier())
	delay := 4 * vUnit
	timeout := 10 * vUnit
	res := ResolveResult{Port: 443}
	for i := 0; i < nt; i++ {
		res.Address = append(res.Address, net.IP{10, 0, 0, byte(i + 1)})
	}
	var atts []*vAttempt
	evt := 0
	inflight, maxInflight := 0, 0
	t0 := vNowNanos()
	outcomes := make([]int, nt)
	durs := make([]int64, nt)
	for i := range outcomes {
		outcomes[i] = vInt(0, 3)
		durs[i] = int64([]int{0, 2, 6, 12}[vInt(0, 2+vTier())]) * vUnit
	}
	d := &Dialer[*vDialConn]{MaxConcurrency: maxc, ConcurrencyDelay: time.Duration(delay), Timeout: time.Duration(timeout)}
	d.DialFunc = func(ctx context.Context, network, addr string, c *tls.Config) (*vDialConn, error) {
		idx := len(atts)
		a := &vAttempt{addr: addr, start: vNowNanos() - t0, outcome: outcomes[idx%nt], ctxDead: ctx.Err() != nil}
		evt++
		a.startSeq = evt
		atts = append(atts, a)
		inflight++
		if inflight > maxInflight {
			maxInflight = inflight
		}
		defer func() {
			inflight--
			a.end = vNowNanos() - t0
			evt++
			a.endSeq = evt
			a.returned = true
		}()
		if a.ctxDead {
			return nil, ctx.Err() // a well-behaved dial function honours its context
		}
		if a.outcome == 2 {
			<-ctx.Done()
			a.ctxEnded = true
			return nil, ctx.Err()
		}
		if a.outcome == 3 {
			// a dial function that does not watch its context: it succeeds after its time, come what may
			time.Sleep(time.Duration(durs[idx%nt]))
			a.conn = &vDialConn{addr: addr}
			return a.conn, nil
		}
		select {
		case <-time.After(time.Duration(durs[idx%nt])):
		case <-ctx.Done():
			a.ctxEnded = true
			return nil, ctx.Err()
		}
		if a.outcome == 1 {
			return nil, errVTransport
		}
		a.conn = &vDialConn{addr: addr}
		return a.conn, nil
	}
	ctx := context.WithValue(context.Background(), transportResolverKey, &transportResolver{host: "h.example", result: res})
	cancelAt := int64(-1)
	stopSleeper := make(chan struct{})
	var cancel context.CancelFunc
	if vBool() {
		cancelAt = int64(vInt(0, 2))*3*vUnit + vUnit/2 // (never at the very instant an attempt completes: natively such ties cannot be steered)
		ctx, cancel = context.WithCancel(ctx)
		go func() {
			select {
			case <-time.After(time.Duration(cancelAt)):
				cancel()
			case <-stopSleeper:
			}
		}()
	}
	conn, err := d.Dial(ctx, "tcp", "h.example:443", nil)
	tEnd := vNowNanos() - t0
	evt++
	retSeq := evt // position of Dial's return in the event order
	vReach("returned")
	vAssert((conn != nil) == (err == nil), "a connection or an error")
	vAssert(maxInflight <= maxc, "never more than MaxConcurrency attempts in flight")
	// start order = target order
	// (natively two workers woken within half a unit may reach the dial function in either order)
	tied := false
	if !vSymbolic() {
		for i := 1; i < len(atts); i++ {
			if atts[i].start-atts[i-1].start < vUnit/2 {
				tied = true
			}
		}
	}
	for i, a := range atts {
		want := net.JoinHostPort(net.IP{10, 0, 0, byte(i + 1)}.String(), "443")
		vAssert(a.addr == want || tied, "attempts start in target order")
	}
	// staggering: an attempt may start earlier than ConcurrencyDelay after the previous
	// start only when a failure woke the feeder, and every such early start needs a
	// failure of its own (a failure wakes the feeder at most once; the wake-up may
	// be delivered after the previous attempt was handed to a worker)
	early := 0
	for i := 1; i < len(atts); i++ {
		if atts[i].ctxDead {
			continue // begun after the outcome was decided: must simply see a cancelled context
		}
		if atts[i].start >= atts[i-1].start+delay-vUnit/2 {
			continue
		}
		early++
		failures := 0
		for j := 0; j < len(atts); j++ {
			if atts[j].returned && atts[j].conn == nil && atts[j].endSeq < atts[i].startSeq {
				failures++
			}
		}
		vAssert(early <= failures, "the next attempt starts only after ConcurrencyDelay, or after an earlier failure of its own")
	}
	for _, a := range atts {
		if a.outcome == 2 && a.returned && !a.ctxDead && vSymbolic() {
			vAssert(a.end-a.start <= timeout, "each attempt is bounded by Timeout")
		}
	}
	// ... and by nothing shorter: an attempt's context ends (or is already dead when the
	// attempt begins) only once Timeout has passed since the attempt began, the caller
	// cancelled, another attempt succeeded, or Dial returned
	for _, a := range atts {
		if !a.ctxDead && !(a.ctxEnded && a.returned) {
			continue
		}
		at, seq := a.start, a.startSeq
		if !a.ctxDead {
			at, seq = a.end, a.endSeq
		}
		// (event order, not time, separates cause from effect within one virtual instant)
		legit := at-a.start >= timeout || (cancelAt >= 0 && cancelAt <= at) || retSeq < seq
		for _, b := range atts {
			if b != a && b.conn != nil && b.returned && b.endSeq < seq {
				legit = true
			}
		}
		vAssert(legit, "an attempt's context ends only after Timeout from its own start, caller cancellation, a success, or Dial's return")
	}
	if err == nil {
		// the first success wins: the returned connection is one that was established, no
		// other attempt had succeeded before it (event order), and Dial returns when it does
		var w *vAttempt
		for _, a := range atts {
			if a.conn != nil && a.conn == conn {
				w = a
			}
		}
		vAssert(w != nil, "the returned connection is one an attempt established")
		for _, a := range atts {
			if w != nil && a != w && a.conn != nil && a.returned && a.end < w.end {
				vFail("the first connection that succeeds is the one returned")
			}
		}
		if w != nil && vSymbolic() {
			vAssert(tEnd == w.end, "Dial returns as soon as the first attempt succeeds (virtual time)")
		}
		vReach("connected")
	} else if cancelAt >= 0 && tEnd >= cancelAt && ctx.Err() != nil {
		if vSymbolic() {
			vAssert(tEnd == cancelAt, "Dial returns when the caller cancels, without waiting for its attempts (virtual time)")
		}
		vAssert(errors.Is(err, context.Canceled), "the caller's cancellation is reported")
		vReach("cancelled")
	} else {
		// every target was tried and failed
		vAssert(len(atts) == nt, "every target is attempted before Dial gives up")
		for _, a := range atts {
			vAssert(a.returned && a.conn == nil, "every attempt failed")
		}
		if vSymbolic() {
			last := int64(0)
			for _, a := range atts {
				if a.end > last {
					last = a.end
				}
			}
			vAssert(tEnd == last, "Dial gives up when the last attempt has failed (virtual time)")
		}
		// ... and reports every failure (or that there was no address at all)
		if nt == 0 {
			vAssert(err.Error() == "no address", "without targets Dial reports that there is no address")
		} else {
			j, ok := err.(interface{ Unwrap() []error })
			vAssert(ok && len(j.Unwrap()) == nt, "the returned error joins the errors of all failed attempts, timed-out ones included")
			for _, a := range atts {
				if a.outcome == 1 && !a.ctxEnded {
					vAssert(errors.Is(err, errVTransport), "the dial function's own error can be found in the returned error (errors.Is)")
				}
				if a.outcome == 2 && a.ctxEnded {
					vAssert(errors.Is(err, context.DeadlineExceeded) || errors.Is(err, context.Canceled), "a timed-out attempt's context error can be found in the returned error")
				}
			}
		}
		vReach("all-failed")
	}
	close(stopSleeper)
	if cancel != nil {
		cancel()
	}
	// quiescence: once outstanding attempts have returned no goroutine is left,
	// and every other established connection has been closed
	vAdvance(13 * vUnit) // dial functions that do not watch their context finish in their own time
	left := vQuiesce()
	vAssert(left == 0, "no goroutine left behind once outstanding attempts returned")
	for _, a := range atts {
		if a.conn != nil && a.conn != conn {
			vAssert(a.conn.closed, "every other established connection is closed")
		}
		if a.startSeq > retSeq {
			vAssert(a.ctxDead, "an attempt begun after the outcome was decided runs under a cancelled context")
		}
	}
	vReach("quiesced")
}

// verifC18Defaults: a Dialer with MaxConcurrency, ConcurrencyDelay and Timeout left
// at zero uses the documented defaults: at most 3 attempts in flight, started one
// second apart, each bounded by 30 seconds.  Five targets that hang; the caller
// cancels after 2.5 seconds.
func verifC18Defaults() {
	res := ResolveResult{Port: 443}
	for i := 0; i < 5; i++ {
		res.Address = append(res.Address, net.IP{10, 0, 0, byte(i + 1)})
	}
	t0 := vNowNanos()
	var starts, budgets []int64
	inflight, maxInflight := 0, 0
	d := &Dialer[*vDialConn]{}
	d.DialFunc = func(ctx context.Context, network, addr string, c *tls.Config) (*vDialConn, error) {
		now := vNowNanos()
		starts = append(starts, now-t0)
		if dl, ok := ctx.Deadline(); ok {
			budgets = append(budgets, dl.UnixNano()-time.Now().UnixNano())
		} else {
			budgets = append(budgets, -1)
		}
		inflight++
		if inflight > maxInflight {
			maxInflight = inflight
		}
		<-ctx.Done()
		inflight--
		return nil, ctx.Err()
	}
	ctx, cancel := context.WithCancel(context.WithValue(context.Background(), transportResolverKey, &transportResolver{host: "h.example", result: res}))
	go func() {
		time.Sleep(2500 * time.Millisecond)
		cancel()
	}()
	_, err := d.Dial(ctx, "tcp", "h.example:443", nil)
	vAssert(err != nil, "cancelled")
	vAssert(maxInflight == 3 && len(starts) == 3, "by default at most 3 attempts are in flight")
	tol := int64(400 * time.Millisecond)
	if vSymbolic() {
		tol = 0
	}
	near := func(a, b int64) bool { return a-b <= tol && b-a <= tol }
	for i, st := range starts {
		vAssert(near(st, int64(i)*int64(time.Second)), "by default attempts start one second apart")
		vAssert(budgets[i] >= 0 && near(budgets[i], int64(30*time.Second)), "by default each attempt is bounded by 30 seconds")
	}
	vQuiesce()
	vReach("defaults")
}

// verifC18Schedules: the ordering-independent clauses of C18 - first success wins,
// every other established connection is closed, nothing is left behind, the
// caller's cancellation is honoured - under schedule exploration: every `go`,
// channel operation, select and atomic of Dial is a scheduling point and every
// schedule that deviates at most twice from the default (run-until-blocked, round-robin) scheduler is explored.  Two targets, two workers,
// attempts that succeed or fail at once, optional cancellation by the caller.
func verifC18Schedules() {
	vSchedForks(true)
	vSchedPoints(2)
	vDelays(2)
	res := ResolveResult{Port: 443, Address: []net.IP{{10, 0, 0, 1}, {10, 0, 0, 2}}}
	outcomes := []int{vInt(0, 1), vInt(0, 1)} // 0 succeed, 1 fail
	var conns []*vDialConn
	calls := 0
	d := &Dialer[*vDialConn]{MaxConcurrency: 2, ConcurrencyDelay: time.Nanosecond, Timeout: time.Hour}
	d.DialFunc = func(ctx context.Context, network, addr string, c *tls.Config) (*vDialConn, error) {
		i := calls
		calls++
		vStall(5) // an attempt takes time: anything may happen meanwhile
		if ctx.Err() != nil {
			return nil, ctx.Err()
		}
		if outcomes[i%2] == 1 {
			return nil, errVTransport
		}
		c1 := &vDialConn{addr: addr}
		conns = append(conns, c1)
		return c1, nil
	}
	ctx, cancel := context.WithCancel(context.WithValue(context.Background(), transportResolverKey, &transportResolver{host: "h.example", result: res}))
	if vBool() {
		go cancel()
	}
	conn, err := d.Dial(ctx, "tcp", "h.example:443", nil)
	vAssert((conn != nil) == (err == nil), "a connection or an error")
	cancel()
	left := vQuiesce()
	vAssert(left == 0, "no goroutine is left behind, whatever the schedule")
	open := 0
	for _, c1 := range conns {
		if !c1.closed {
			open++
			vAssert(c1 == conn, "every established connection other than the returned one is closed, whatever the schedule")
		}
	}
	vAssert(conn == nil || open == 1, "the returned connection is open")
	if err != nil && outcomes[0] == 0 && outcomes[1] == 0 && ctx.Err() == nil {
		vFail("with every attempt succeeding Dial succeeds")
	}
	vReach("schedules")
}
