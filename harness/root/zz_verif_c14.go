package ech

import (
	"context"
	"errors"
	"net"
	"net/http"
	"net/url"
	"strings"

	"github.com/c2FmZQ/ech/dns"
)

// C14: Resolve follows RFC 9460 and uses only answers that belong to the name asked.

type vQuery struct {
	name string
	typ  uint16
}

// vZone is a symbolic universe of DNS data, answered through the DoH seam.
type vZone struct {
	queries []vQuery
	answer  func(q vQuery) (*dns.Message, error)
}

func (z *vZone) install() {
	dns.VerifHook_DoH = func(ctx context.Context, msg *dns.Message, URL string) (*dns.Message, error) {
		// the query actually built is decoded again to learn QNAME/QTYPE
		d, err := dns.DecodeMessage(msg.Bytes())
		if err != nil || len(d.Question) != 1 {
			vFail("the resolver sends one well-formed question")
			return nil, errVTransport
		}
		vAssert(len(msg.Bytes())%128 == 0, "queries are padded to a multiple of 128 bytes")
		q := vQuery{d.Question[0].Name, d.Question[0].Type}
		for _, l := range strings.Split(q.name, ".") {
			vAssert(len(l) <= 63, "no query carries a label longer than 63 bytes")
			vAssert(len(l) > 0 || q.name == "", "no query carries an empty label inside a name")
			vAssert(!strings.ContainsAny(l, ":%/[]@ "), "no query label carries URL or address syntax (':', '%', '/', brackets, '@', space)")
		}
		vAssert(len(q.name) <= 253, "no query name is longer than 253 bytes (255 on the wire)")
		z.queries = append(z.queries, q)
		return z.answer(q)
	}
}

var vMarkerIP = net.IP{6, 6, 6, 6}

// verifC14Names: the RFC 9460 section 2.3 query name for each accepted name form.
func verifC14Names() {
	forms := []struct {
		in    string
		qname string
		port  uint16
		host  string
	}{
		{"example.com", "example.com", 443, "example.com"},
		{"example.com:443", "example.com", 443, "example.com"},
		{"example.com:80", "example.com", 80, "example.com"},
		{"example.com:8443", "_8443._https.example.com", 8443, "example.com"},
		{"foo://example.com:123", "_123._foo.example.com", 123, "example.com"},
		{"http://example.com", "example.com", 443, "example.com"},
		{"https://example.com:8080/path", "_8080._https.example.com", 8080, "example.com"},
		{"foo://example.com", "_foo.example.com", 443, "example.com"},
		{"example.com.", "example.com", 443, "example.com"},
		{"example.com:0", "example.com", 443, "example.com"},
		{"http://example.com:8080", "_8080._https.example.com", 8080, "example.com"},
		{"HTTPS://example.com:444/x?y", "_444._https.example.com", 444, "example.com"},
	}
	f := forms[vInt(0, len(forms)-1)]
	z := &vZone{}
	z.answer = func(q vQuery) (*dns.Message, error) {
		m := &dns.Message{QR: 1}
		if q.typ == 1 {
			// (the answer's owner is written without the trailing dot, as servers do)
			m.Answer = append(m.Answer, dns.RR{Name: f.host, Type: 1, Class: 1, TTL: 60, Data: net.IP{10, 1, 2, 3}})
		}
		return m, nil
	}
	z.install()
	r := &Resolver{}
	res, err := r.Resolve(context.Background(), f.in)
	vAssert(err == nil, "resolution with empty answers succeeds")
	vAssert(len(res.Address) == 1 && vBytesEq(res.Address[0].To4(), net.IP{10, 1, 2, 3}), "the host's address record is used")
	vAssert(len(z.queries) >= 1 && z.queries[0].name == f.qname && z.queries[0].typ == 65, "first query is the RFC 9460 2.3 HTTPS QNAME")
	vAssert(res.Port == f.port, "port of the result")
	vAssert(len(z.queries) == 3 && z.queries[1] == vQuery{f.host, 1} && z.queries[2] == vQuery{f.host, 28}, "then A and AAAA for the host")
	vReach("names")
}

// verifC14Literals: IP literals and localhost never query; over-long names are refused without a query or panic.
func verifC14Literals() {
	long := strings.Repeat("a", 64)
	big := strings.Repeat("abcdefg.", 33) // 264 bytes
	forms := []string{"192.0.2.1", "192.0.2.1:8443", "[2001:db8::1]:443", "2001:db8::1", "localhost", "localhost:80",
		"https://[2001:db8::1]/", "https://[2001:db8::1]:8443/x", "[2001:db8::1]", "https://192.0.2.1/", "http://192.0.2.1:8080/",
		long + ".example.com", big + "com", "example.com:8443x", strings.Repeat("s", 64) + "://example.com", strings.Repeat("s", 300) + "://example.com:99",
		strings.Repeat("s", 62) + "://example.com", strings.Repeat("s", 63) + "://example.com", strings.Repeat("a", 63) + ".example.com", strings.Repeat("s", 63) + "://example.com:8443"}
	i := vInt(0, len(forms)-1)
	z := &vZone{}
	z.answer = func(q vQuery) (*dns.Message, error) { return &dns.Message{QR: 1}, nil }
	z.install()
	r := &Resolver{}
	res, err := r.Resolve(context.Background(), forms[i])
	switch {
	case i <= 10:
		vAssert(err == nil && len(z.queries) == 0 && len(res.Address) >= 1, "literals and localhost resolve without queries")
		wantPort := []uint16{443, 8443, 443, 443, 443, 80, 443, 8443, 443, 443, 8080}[i]
		vAssert(res.Port == wantPort, "the literal's port is kept")
		switch i {
		case 0, 1, 9, 10:
			vAssert(len(res.Address) == 1 && vBytesEq(res.Address[0], net.IP{192, 0, 2, 1}), "an IPv4 literal yields its 4-byte address")
		case 2, 3, 6, 7, 8:
			vAssert(len(res.Address) == 1 && len(res.Address[0]) == 16 && res.Address[0][0] == 0x20 && res.Address[0][15] == 1, "an IPv6 literal yields its address")
		case 4, 5:
			vAssert(len(res.Address) == 2 && vBytesEq(res.Address[0], net.IP{127, 0, 0, 1}) && len(res.Address[1]) == 16 && res.Address[1][15] == 1, "localhost yields both loopback addresses")
		}
	case i <= 12:
		vAssert(errors.Is(err, ErrInvalidName) && len(z.queries) == 0, "over-long label or name refused with ErrInvalidName, no query")
	default:
		// odd port text / over-long scheme: an error or a query with legal labels, never a panic
		vReach("odd")
	}
	vReach("literals")
}

// verifC14Zone: a symbolic zone: per query a symbolic rcode or transport error and
// up to 2 answer records with symbolic owner (asked name / CNAME target /
// unrelated), type, TTL and HTTPS contents; unrelated owners carry marker data.
func verifC14Zone() {
	origin := "o.example"
	names := []string{origin, "alias1.example", "alias2.example", "svc.example"}
	rcodes := []uint8{1, 2, 3, 4, 5, 9}
	rcErr := map[uint8]error{1: ErrFormatError, 2: ErrServerFailure, 3: ErrNonExistentDomain, 4: ErrNotImplemented, 5: ErrQueryRefused}
	lastRC := uint8(0)           // response code of the last query (0: answered)
	httpsFail := uint8(0)        // first response code other than NXDOMAIN served to an HTTPS lookup
	served6 := map[string]net.IP{} // IPv6 address the zone served for a name
	z := &vZone{}
	aliasLoop := vBool()
	viaCNAME := false
	served := map[string]net.IP{} // address the zone served for a name
	aChoice := map[string][2]bool{}
	refused := map[string]bool{} // an address query for the name was answered with an error rcode
	z.answer = func(q vQuery) (*dns.Message, error) {
		m := &dns.Message{QR: 1}
		lastRC = 0
		if vBool() {
			m.RCode = rcodes[vInt(0, 5)]
			lastRC = m.RCode
			if q.typ == 65 && m.RCode != 3 && httpsFail == 0 {
				httpsFail = m.RCode // only NXDOMAIN on the HTTPS lookup means "no record"
			}
			if q.typ != 65 {
				refused[q.name] = true
			}
			return m, nil
		}
		known := false
		for _, n := range names {
			if n == q.name {
				known = true
			}
		}
		vAssert(known, "only the origin, alias targets and service targets are ever queried")
		switch q.typ {
		case 65:
			switch q.name {
			case origin:
				switch vInt(0, 6) {
				case 6: // the HTTPS record is reached through an in-answer CNAME chain of two hops
					viaCNAME = true
					m.Answer = append(m.Answer,
						dns.RR{Name: origin, Type: 5, Class: 1, TTL: 60, Data: "h1.o.example"},
						dns.RR{Name: "h1.o.example", Type: 5, Class: 1, TTL: 60, Data: "h2.o.example"},
						dns.RR{Name: "h2.o.example", Type: 65, Class: 1, TTL: 60, Data: dns.HTTPS{Priority: 1, ECH: []byte{7}}})
				case 5: // a malformed RRSet holding a service-mode and an alias-mode record
					m.Answer = append(m.Answer,
						dns.RR{Name: origin, Type: 65, Class: 1, TTL: 60, Data: dns.HTTPS{Priority: 1, ECH: []byte{1}}},
						dns.RR{Name: origin, Type: 65, Class: 1, TTL: 60, Data: dns.HTTPS{Priority: 0, Target: "alias1.example"}})
				case 4: // service mode with an explicit target that is the queried host itself
					m.Answer = append(m.Answer, dns.RR{Name: origin, Type: 65, Class: 1, TTL: 60, Data: dns.HTTPS{Priority: 1, Target: origin, ECH: []byte{5}}})
				case 0: // alias
					m.Answer = append(m.Answer, dns.RR{Name: origin, Type: 65, Class: 1, TTL: 60, Data: dns.HTTPS{Priority: 0, Target: "alias1.example"}})
				case 1: // service mode, two records out of priority order, one with a target
					m.Answer = append(m.Answer,
						dns.RR{Name: origin, Type: 65, Class: 1, TTL: 60, Data: dns.HTTPS{Priority: []uint16{2, 40000}[vInt(0, 1)], Target: "svc.example", ECH: []byte{2}}}, // (priorities may lie far apart)
						dns.RR{Name: origin, Type: 65, Class: 1, TTL: 60, Data: dns.HTTPS{Priority: 1, ECH: []byte{1}}})
				case 2: // poisoned: records for unrelated owner names, one behind an off-chain CNAME
					m.Answer = append(m.Answer,
						dns.RR{Name: "evil.example", Type: 65, Class: 1, TTL: 60, Data: dns.HTTPS{Priority: 1, ECH: []byte{0xEE}}},
						dns.RR{Name: "evil.example", Type: 5, Class: 1, TTL: 60, Data: "evil2.example"},
						dns.RR{Name: "evil2.example", Type: 65, Class: 1, TTL: 60, Data: dns.HTTPS{Priority: 1, ECH: []byte{0xEE}}},
						dns.RR{Name: origin, Type: 65, Class: 1, TTL: 60, Data: dns.HTTPS{Priority: 1, ECH: []byte{1}}})
				}
			case "alias1.example":
				if aliasLoop {
					m.Answer = append(m.Answer, dns.RR{Name: q.name, Type: 65, Class: 1, TTL: 60, Data: dns.HTTPS{Priority: 0, Target: origin}})
				} else if vBool() {
					m.Answer = append(m.Answer, dns.RR{Name: q.name, Type: 65, Class: 1, TTL: 60, Data: dns.HTTPS{Priority: 0, Target: "alias2.example"}})
				} else {
					m.Answer = append(m.Answer, dns.RR{Name: q.name, Type: 65, Class: 1, TTL: 60, Data: dns.HTTPS{Priority: 1, ECH: []byte{3}}})
				}
			case "alias2.example":
				switch vInt(0, 4) {
				case 0:
					m.Answer = append(m.Answer, dns.RR{Name: q.name, Type: 65, Class: 1, TTL: 60, Data: dns.HTTPS{Priority: 1, ECH: []byte{4}}})
				case 1: // a loop that does not pass through the origin
					m.Answer = append(m.Answer, dns.RR{Name: q.name, Type: 65, Class: 1, TTL: 60, Data: dns.HTTPS{Priority: 0, Target: "alias1.example"}})
				case 2: // an alias of itself
					m.Answer = append(m.Answer, dns.RR{Name: q.name, Type: 65, Class: 1, TTL: 60, Data: dns.HTTPS{Priority: 0, Target: "alias2.example"}})
				case 3:
					m.Answer = append(m.Answer, dns.RR{Name: q.name, Type: 65, Class: 1, TTL: 60, Data: dns.HTTPS{Priority: 0, Target: origin}})
				case 4: // alias mode with target "." : the service does not exist
					m.Answer = append(m.Answer, dns.RR{Name: q.name, Type: 65, Class: 1, TTL: 60, Data: dns.HTTPS{Priority: 0, Target: ""}})
				}
			}
		case 1:
			m.Answer = append(m.Answer, dns.RR{Name: "evil.example", Type: 1, Class: 1, TTL: 60, Data: vMarkerIP})
			ch, ok := aChoice[q.name] // the zone's data for a name does not change between queries
			if !ok {
				ch = [2]bool{vBool(), vBool()}
				aChoice[q.name] = ch
			}
			if ch[0] {
				// a CNAME that is not owned by the queried name must not redirect the chain
				m.Answer = append(m.Answer, dns.RR{Name: "evil.example", Type: 5, Class: 1, TTL: 60, Data: "evil2.example"},
					dns.RR{Name: "evil2.example", Type: 1, Class: 1, TTL: 60, Data: vMarkerIP})
			}
			if ch[1] && ch[0] {
				// through an in-answer CNAME chain of two hops
				m.Answer = append(m.Answer, dns.RR{Name: q.name, Type: 5, Class: 1, TTL: 60, Data: "c." + q.name},
					dns.RR{Name: "c." + q.name, Type: 5, Class: 1, TTL: 60, Data: "d." + q.name},
					dns.RR{Name: "d." + q.name, Type: 1, Class: 1, TTL: 60, Data: net.IP{10, 0, 0, 3}})
				served[q.name] = net.IP{10, 0, 0, 3}
			} else if ch[1] {
				// through an in-answer CNAME
				m.Answer = append(m.Answer, dns.RR{Name: q.name, Type: 5, Class: 1, TTL: 60, Data: "c." + q.name},
					dns.RR{Name: "c." + q.name, Type: 1, Class: 1, TTL: 60, Data: net.IP{10, 0, 0, 1}})
				served[q.name] = net.IP{10, 0, 0, 1}
			} else {
				m.Answer = append(m.Answer, dns.RR{Name: q.name, Type: 1, Class: 1, TTL: 60, Data: net.IP{10, 0, 0, 2}})
				served[q.name] = net.IP{10, 0, 0, 2}
			}
		case 28:
			m.Answer = append(m.Answer, dns.RR{Name: "evil.example", Type: 28, Class: 1, TTL: 60, Data: append(net.IP{6, 6, 6, 6}, make([]byte, 12)...)})
			ip := net.IP{0x20, 1, 0xd, 0xb8, 0, 0, 0, 0, 0, 0, 0, 0, 0, 0, 0, byte(len(q.name))}
			m.Answer = append(m.Answer, dns.RR{Name: q.name, Type: 28, Class: 1, TTL: 60, Data: ip})
			served6[q.name] = ip
		}
		return m, nil
	}
	z.install()
	r := &Resolver{}
	res, err := r.Resolve(context.Background(), origin)
	// error mapping: all failures here are response codes, and Resolve stops at the first
	// one that matters, so it fails exactly when the last query it made was refused
	vAssert((err != nil) == (lastRC != 0), "Resolve fails iff the last lookup it depended on was answered with an error code")
	if httpsFail != 0 {
		vAssert(err != nil, "a failure of the HTTPS lookup other than NXDOMAIN fails the resolution (no silent fall-back to plain addresses)")
		if want, ok := rcErr[httpsFail]; ok && err != nil {
			vAssert(errors.Is(err, want), "the HTTPS lookup's response code is the one reported")
		}
	}
	if err != nil && lastRC != 0 {
		if want, ok := rcErr[lastRC]; ok {
			vAssert(errors.Is(err, want), "the response code is mapped to its documented error")
		} else {
			for _, e := range rcErr {
				vAssert(!errors.Is(err, e), "an undocumented response code is not reported as one of the documented errors")
			}
		}
	}
	nHTTPS := 0
	for _, q := range z.queries {
		if q.typ == 65 {
			nHTTPS++
		}
	}
	vAssert(nHTTPS <= 4, "alias chain bounded: at most 4 HTTPS queries")
	vAssert(len(z.queries) <= 4+2*3, "bounded number of queries")
	if err != nil {
		vReach("error")
		return
	}
	for _, ip := range res.Address {
		vAssert(!vBytesEq(ip, vMarkerIP), "addresses attached to unrelated owner names are never used")
	}
	for _, ips := range res.Additional {
		for _, ip := range ips {
			vAssert(!vBytesEq(ip, vMarkerIP), "addresses attached to unrelated owner names are never used")
		}
	}
	if viaCNAME {
		vAssert(len(res.HTTPS) == 1 && len(res.HTTPS[0].ECH) == 1 && res.HTTPS[0].ECH[0] == 7, "an HTTPS record reached through the in-answer CNAME chain is used")
	}
	prev := uint16(0)
	for _, h := range res.HTTPS {
		vAssert(h.Priority != 0, "only service-mode records are returned")
		vAssert(len(h.ECH) != 1 || h.ECH[0] != 0xEE, "HTTPS records of unrelated owner names are never used")
		vAssert(h.Priority >= prev, "service-mode records ordered by priority")
		prev = h.Priority
		if ip, ok := served[h.Target]; ok && h.Target != "" && !refused[h.Target] {
			found := false
			for _, a := range res.Additional[h.Target] {
				found = found || vBytesEq(a.To4(), ip)
			}
			vAssert(found, "a service-mode record comes with the addresses the zone serves for its target")
			if ip6, ok := served6[h.Target]; ok {
				found6 := false
				for _, a := range res.Additional[h.Target] {
					found6 = found6 || vBytesEq(a, ip6)
				}
				vAssert(found6, "a service-mode record comes with the IPv6 addresses of its target too")
			}
		}
	}
	for _, ip := range res.Address {
		vAssert(len(ip) != 16 || ip[0] != 6 || ip[1] != 6, "addresses attached to unrelated owner names are never used")
	}
	if ip, ok := served[origin]; ok && !refused[origin] {
		found := false
		for _, a := range res.Address {
			found = found || vBytesEq(a.To4(), ip)
		}
		vAssert(found, "the origin's own addresses are returned")
	}
	vReach("resolved")
}

// verifC12Resolve (C12, third clause): a DoH response body that decodes - one
// answer RR with symbolic class, a type drawn from {A, AAAA, CNAME, HTTPS, NS,
// TXT, unknown} and symbolic RDATA, owner = the queried name - is consumed by
// Resolver.Resolve without panicking on any of its type assertions.
func verifC12Resolve() {
	types := []uint16{1, 28, 5, 65, 2, 16, 999}
	typ := types[vInt(0, len(types)-1)]
	rd := vBytes(vInt(0, 3))
	cls := vBytes(2)
	ttl := vBytes(4)
	answered := false
	dns.VerifHook_DoH = func(ctx context.Context, msg *dns.Message, URL string) (*dns.Message, error) {
		d, err := dns.DecodeMessage(msg.Bytes())
		if err != nil || len(d.Question) != 1 {
			return nil, errVTransport
		}
		// the symbolic record is served once: to the query of its own type, or (for
		// types the resolver never asks for) to the first query
		mine := d.Question[0].Type == typ || (typ != 1 && typ != 28 && typ != 65)
		if answered || !mine {
			return &dns.Message{QR: 1}, nil
		}
		answered = true
		// header (1 question, 1 answer) + the question as asked + one answer with a pointer to the question name
		q := msg.Bytes()[12:]
		qlen := 0
		for q[qlen] != 0 {
			qlen += 1 + int(q[qlen])
		}
		qlen += 5
		raw := vCat([]byte{0, 0, 0x81, 0x80, 0, 1, 0, 1, 0, 0, 0, 0}, q[:qlen],
			[]byte{0xc0, 0x0c, byte(typ >> 8), byte(typ)}, cls, ttl, vU16(len(rd)), rd)
		return dns.DecodeMessage(raw)
	}
	r := &Resolver{}
	_, err := r.Resolve(context.Background(), "n.example")
	vObserve(err == nil)
	vReach("resolved-or-error")
}

// verifC19PoolKeys (C19, origin isolation): the connection-pool key that RoundTrip
// derives (the rewritten URL.Host) is different for different scheme/host/port
// origins, over a list of adversarially similar origins.
func verifC19PoolKeys() {
	origins := []string{
		"https://a.example/", "https://a.example:443/", "https://a.example:8443/", "https://a.example:80/",
		"http://a.example/", "http://a.example:80/", "http://a.example:443/", "https://b.example/",
		"https://a.example._/", "https://_443._https.a.example/", "https://a.example.:443/", "https://xn--a.example/",
		"https://[2001:db8::1]/", "https://[2001:db8::1]:8443/", "https://[2001:db8::2]/",
	}
	// effective origin: without HTTPS records http stays http; with them an http URL is
	// upgraded to https (default port 443)
	upgrade := vBool()
	dns.VerifHook_DoH = func(ctx context.Context, msg *dns.Message, URL string) (*dns.Message, error) {
		m := &dns.Message{QR: 1}
		if d, err := dns.DecodeMessage(msg.Bytes()); err == nil && upgrade && d.Question[0].Type == 65 {
			m.Answer = append(m.Answer, dns.RR{Name: d.Question[0].Name, Type: 65, Class: 1, TTL: 60, Data: dns.HTTPS{Priority: 1}})
		}
		return m, nil
	}
	sameHostHeader := vBool() // both requests carry the same Host header override
	i := vInt(0, len(origins)-1)
	j := vInt(0, len(origins)-1)
	vAssume(i < j)
	key := func(raw string) (string, string) {
		t := NewTransport()
		t.Resolver = &Resolver{}
		h3 := &vH3{}
		t.HTTP3Transport = h3
		var got string
		t.HTTPTransport.DialTLSContext = func(ctx context.Context, network, addr string) (net.Conn, error) {
			got = "tls " + addr
			return nil, errVTransport
		}
		t.HTTPTransport.DialContext = func(ctx context.Context, network, addr string) (net.Conn, error) {
			got = "tcp " + addr
			return nil, errVTransport
		}
		u, err := url.Parse(raw)
		vAssert(err == nil, "origin parses")
		req := (&http.Request{Method: "GET", URL: u, Header: http.Header{}}).WithContext(context.Background())
		if sameHostHeader {
			req.Host = "front.example"
		}
		_, _ = t.RoundTrip(req)
		scheme := u.Scheme
		if upgrade && scheme == "http" && net.ParseIP(u.Hostname()) == nil {
			scheme = "https"
		}
		port := u.Port()
		if port == "" {
			if scheme == "http" {
				port = "80"
			} else {
				port = "443"
			}
		}
		return got, scheme + "|" + u.Hostname() + "|" + port
	}
	k1, o1 := key(origins[i])
	k2, o2 := key(origins[j])
	vAssert(k1 != "" && k2 != "", "the transport was asked to dial")
	if o1 != o2 {
		vAssert(k1 != k2, "different scheme/host/port origins never share a pool key")
	} else {
		vAssert(k1 == k2, "the same origin maps to the same pool key")
	}
	vReach("keys")
}

// verifC14Chain: alias chains of 1..6 hops (the limit is 4 HTTPS lookups), and
// NXDOMAIN / empty answers on the HTTPS lookup: bounded queries, fall-back to the
// origin's addresses when the chain is too long, NXDOMAIN on HTTPS = absence.
func verifC14Chain() {
	host := "o.example"
	// the origin in each accepted form: the HTTPS chain starts at the RFC 9460 2.3 name,
	// address lookups use the bare host
	form := vInt(0, 2)
	origin := []string{host, host + ":8443", "foo://" + host}[form]
	start := []string{host, "_8443._https." + host, "_foo." + host}[form]
	hops := vInt(0, 6)
	nx := vBool() // the last name of the chain answers NXDOMAIN to HTTPS instead of a service record
	viaHost := form != 0 && hops >= 1 && vBool() // the prefixed name is an alias of the bare host itself
	name := func(i int) string {
		if i == 0 {
			return start
		}
		if i == 1 && viaHost {
			return host
		}
		return string([]byte{'a' + byte(i)}) + ".alias.example"
	}
	v6 := func(idx int) net.IP {
		return net.IP{0x20, 1, 0xd, 0xb8, 0, 0, 0, 0, 0, 0, 0, 0, 0, 0, 0, byte(idx)}
	}
	z := &vZone{}
	z.answer = func(q vQuery) (*dns.Message, error) {
		m := &dns.Message{QR: 1}
		idx := -1
		for i := 0; i <= hops; i++ {
			if q.name == name(i) {
				idx = i
			}
		}
		if q.typ != 65 && q.name == host && idx < 0 {
			idx = 0 // addresses of the origin itself are asked under the bare host name
		}
		vAssert(idx >= 0, "only names of the chain are queried")
		vAssert(q.typ == 65 || q.name != start || start == host, "address lookups never use the _port._scheme name")
		switch q.typ {
		case 65:
			if idx < hops {
				m.Answer = append(m.Answer, dns.RR{Name: q.name, Type: 65, Class: 1, TTL: 60, Data: dns.HTTPS{Priority: 0, Target: name(idx + 1)}})
			} else if nx {
				m.RCode = 3
			} else {
				m.Answer = append(m.Answer, dns.RR{Name: q.name, Type: 65, Class: 1, TTL: 60, Data: dns.HTTPS{Priority: 1, ECH: []byte{byte(idx)}}})
			}
		case 1:
			m.Answer = append(m.Answer, dns.RR{Name: q.name, Type: 1, Class: 1, TTL: 60, Data: net.IP{10, 0, 0, byte(idx)}})
		case 28:
			m.Answer = append(m.Answer, dns.RR{Name: q.name, Type: 28, Class: 1, TTL: 60, Data: v6(idx)})
		}
		return m, nil
	}
	z.install()
	r := &Resolver{}
	res, err := r.Resolve(context.Background(), origin)
	vAssert(err == nil, "resolution succeeds (NXDOMAIN on the HTTPS lookup is absence)")
	nHTTPS := 0
	var aName, aaaaName string
	for _, q := range z.queries {
		switch q.typ {
		case 65:
			nHTTPS++
		case 1:
			aName = q.name
		case 28:
			aaaaName = q.name
		}
	}
	vAssert(nHTTPS <= 4, "at most 4 HTTPS lookups")
	vAssert(len(z.queries) <= 4+2, "bounded number of queries")
	vAssert(aName == aaaaName && aName != "", "A and AAAA are asked for the same name")
	vAssert(len(res.Address) == 2, "one IPv4 and one IPv6 address")
	end := 0 // index of the name whose addresses are expected
	if hops <= 3 {
		// the chain is followed to its end: addresses are those of the final alias target
		end = hops
		if nx {
			vAssert(len(res.HTTPS) == 0, "no HTTPS record")
		} else {
			vAssert(len(res.HTTPS) == 1 && res.HTTPS[0].ECH[0] == byte(hops), "service record of the final alias target")
		}
	} else {
		// too long: fall back to the origin without HTTPS records
		vAssert(len(res.HTTPS) == 0, "alias chain too long: plain resolution of the origin")
		if viaHost {
			end = 1 // the bare host is itself the second name of this chain
		}
	}
	if len(res.Address) == 2 {
		vAssert(vBytesEq(res.Address[0].To4(), net.IP{10, 0, 0, byte(end)}), "IPv4 address of the final alias target (or of the origin)")
		vAssert(vBytesEq(res.Address[1], v6(end)), "IPv6 address of the final alias target (or of the origin)")
	}
	vReach("chain")
}

// vHostOfLen builds a host name of exactly n bytes with labels of at most 63 bytes.
func vHostOfLen(n int) string {
	b := make([]byte, n)
	for i := range b {
		if i%64 == 63 {
			b[i] = '.'
		} else {
			b[i] = 'a' + byte(i%26)
		}
	}
	if b[n-1] == '.' {
		b[n-1] = 'z'
	}
	return string(b)
}

// verifC14LongNames: the name-length limit (255 octets on the wire, i.e. 253
// in presentation form) at its boundary, for a bare host and for a host whose
// RFC 9460 2.3 prefix (_port._scheme.) pushes the query name over the limit: an
// over-long name is refused with ErrInvalidName before any query is made.
func verifC14LongNames() {
	n := []int{240, 252, 253, 254, 255, 256}[vInt(0, 5)]
	host := vHostOfLen(n)
	in := host
	qlen := n
	switch vInt(0, 2) {
	case 1:
		in = host + ":8443"
		qlen = n + len("_8443._https.")
	case 2:
		in = "foo://" + host
		qlen = n + len("_foo.")
	}
	z := &vZone{}
	z.answer = func(q vQuery) (*dns.Message, error) { return &dns.Message{QR: 1}, nil }
	z.install()
	r := &Resolver{}
	_, err := r.Resolve(context.Background(), in)
	if qlen > 253 {
		vAssert(errors.Is(err, ErrInvalidName), "a name (with its _port._scheme prefix) longer than 253 bytes is refused with ErrInvalidName")
		vAssert(len(z.queries) == 0, "an over-long name is refused before any query")
		vReach("long-refused")
	} else {
		vAssert(err == nil && len(z.queries) == 3, "a name within the limit is resolved")
		vReach("long-ok")
	}
}

// verifC14Loops: alias loops of every small shape - a self-alias, a cycle through
// the origin, a cycle that does not pass through the origin again (o -> b -> c ->
// b), each also from a host:port origin: the lookup terminates within the bound
// and falls back to the queried host itself: its own addresses, no HTTPS records.
func verifC14Loops() {
	host := "o.example"
	prefixed := vBool()
	origin, start := host, host
	if prefixed {
		origin, start = host+":8443", "_8443._https."+host
	}
	next := map[string]string{}
	switch vInt(0, 3) {
	case 0:
		next[start] = start
	case 1:
		next[start] = "b.example"
		next["b.example"] = start
	case 2:
		next[start] = "b.example"
		next["b.example"] = "c.example"
		next["c.example"] = "b.example"
	case 3:
		next[start] = "b.example"
		next["b.example"] = "b.example"
	}
	z := &vZone{}
	z.answer = func(q vQuery) (*dns.Message, error) {
		m := &dns.Message{QR: 1}
		switch q.typ {
		case 65:
			if t, ok := next[q.name]; ok {
				m.Answer = append(m.Answer, dns.RR{Name: q.name, Type: 65, Class: 1, TTL: 60, Data: dns.HTTPS{Priority: 0, Target: t}})
			}
		case 1:
			m.Answer = append(m.Answer, dns.RR{Name: q.name, Type: 1, Class: 1, TTL: 60, Data: net.IP{10, 0, 0, q.name[0]}})
		}
		return m, nil
	}
	z.install()
	r := &Resolver{}
	res, err := r.Resolve(context.Background(), origin)
	vAssert(err == nil, "an alias loop is not an error")
	vAssert(len(z.queries) <= 4+2, "bounded number of queries")
	vAssert(len(res.HTTPS) == 0, "an alias loop yields no HTTPS records")
	for _, q := range z.queries {
		if q.typ != 65 {
			vAssert(q.name == host, "after an alias loop the addresses of the queried host itself are looked up")
		}
	}
	vAssert(len(res.Address) == 1 && res.Address[0].To4()[3] == 'o', "after an alias loop the queried host's own addresses are returned")
	vReach("loops")
}

// verifC14BadForms: inputs that are no host name - an empty label, a port that is
// not a 16-bit number, an empty host, an IPv6 literal with a zone - are refused
// with ErrInvalidName (or, for the zone literal, answered without the DNS); no
// query is ever made for them.  URL forms with user info / upper-case scheme
// resolve under the right RFC 9460 name.
func verifC14BadForms() {
	bad := []string{"a..example.com", ".example.com", "example.com:65536", "example.com:-1", "example.com:", ":443",
		"example.com:8443x", "https://example.com:99999/", "[fe80::1%eth0]:443", "https://[fe80::1%25eth0]/"}
	good := []struct{ in, qname string }{
		{"https://user:pw@example.com:8443/", "_8443._https.example.com"},
		{"HTTP://example.com:8080", "_8080._https.example.com"},
	}
	i := vInt(0, len(bad)+len(good)-1)
	z := &vZone{}
	z.answer = func(q vQuery) (*dns.Message, error) { return &dns.Message{QR: 1}, nil }
	z.install()
	r := &Resolver{}
	if i < len(bad) {
		res, err := r.Resolve(context.Background(), bad[i])
		vAssert(len(z.queries) == 0, "no DNS query is made for an input that is not a host name")
		vAssert(errors.Is(err, ErrInvalidName) || (err == nil && len(res.Address) > 0 && i >= 8), "an input that is not a host name is refused with ErrInvalidName")
		vReach("bad-refused")
		return
	}
	g := good[i-len(bad)]
	_, err := r.Resolve(context.Background(), g.in)
	vAssert(err == nil && len(z.queries) == 3 && z.queries[0].name == g.qname && z.queries[1].name == "example.com", "URL forms resolve under their RFC 9460 query name and bare host")
	vReach("good-form")
}

// verifC14HostileTargets: names that come out of DNS data - the target of an
// alias-mode or service-mode HTTPS record - are no more trusted than the
// caller's input: a target with a label over 63 bytes, a name over 253 bytes or
// an empty label is never put into a query (the DoH hook checks every query
// name); Resolve fails with ErrInvalidName or ignores the record.
func verifC14HostileTargets() {
	long := strings.Repeat("x", 100) + ".net"
	huge := strings.Repeat(strings.Repeat("y", 60)+".", 9) + "net" // 543 bytes
	bad := []string{long, huge, "a..b.net", ".net"}[vInt(0, 3)]
	alias := vBool()
	z := &vZone{}
	z.answer = func(q vQuery) (*dns.Message, error) {
		m := &dns.Message{QR: 1}
		switch {
		case q.typ == 65 && q.name == "o.example":
			prio := uint16(1)
			if alias {
				prio = 0
			}
			m.Answer = append(m.Answer, dns.RR{Name: q.name, Type: 65, Class: 1, TTL: 60, Data: dns.HTTPS{Priority: prio, Target: bad, ECH: []byte{1}}})
		case q.typ == 1:
			m.Answer = append(m.Answer, dns.RR{Name: q.name, Type: 1, Class: 1, TTL: 60, Data: net.IP{10, 0, 0, 1}})
		}
		return m, nil
	}
	z.install() // asserts on every query: labels of 1..63 bytes, names of at most 253 bytes
	r := &Resolver{}
	res, err := r.Resolve(context.Background(), "o.example")
	for _, q := range z.queries {
		vAssert(q.name == "o.example", "only the origin is ever queried: a malformed target name is not looked up")
	}
	if err != nil {
		vAssert(errors.Is(err, ErrInvalidName), "a malformed alias target is refused with ErrInvalidName")
		vReach("hostile-refused")
		return
	}
	vAssert(len(res.Additional[bad]) == 0, "no addresses are attributed to a malformed target")
	vReach("hostile-ignored")
}
