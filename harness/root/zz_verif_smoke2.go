package ech

import "time"

func timeUnix(c int64) time.Time { return time.Unix(c, 0) }

const timeSecond = time.Second

type timeDuration = time.Duration
