package ech

import (
	"context"
	"sync/atomic"
)

// C08: no peer input can crash, hang or balloon a Conn.
// All implicit Go assertions (index/slice bounds, nil dereference, failed type
// assertion, unrecovered panic, loop unwinding) are checked by the engine on
// every path of every harness below.

func vC08Key() []Key {
	priv, pub := vKey(0)
	cfg := vConfig(vByte(), pub, [][2]uint16{{1, 1}, {1, 3}}, []byte("pub.example"))
	return []Key{{Config: cfg, PrivateKey: priv, SendAsRetry: true}}
}

// verifC08Raw: one record "tt vv vv LL LL" + L fully symbolic bytes into NewConn
// (with and without a configured key), then Reads over following client bytes.
func verifC08Raw() {
	slack := 4
	if vTier() > 0 {
		slack = 8
	}
	L := vInt(0, 44+slack)
	body := vBytes(L)
	rec := vCat([]byte{vByte(), vByte(), vByte(), byte(L >> 8), byte(L)}, body)
	more := vBytes(vInt(0, 6)) // bytes of a following record (possibly incomplete)
	vBoundRecordLengths(more, 2)
	tr := newVTransport(vCat(rec, more))
	var opts []Option
	if vBool() {
		opts = append(opts, WithKeys(vC08Key()))
	}
	c, err := NewConn(context.Background(), tr, opts...)
	if err != nil {
		vReach("newconn-error")
		vC08Refused(c)
		return
	}
	vReach("newconn-ok")
	vAssert(c != nil, "conn non-nil on success")
	vC08Reads(c, 3)
	vReach("reads-done")
}

// verifC08Ext: a ClientHello whose fixed part is pinned (empty session id, one
// cipher suite, one compression method) so that every free byte goes to the
// extension block: reaches the SNI/ALPN/supported_versions/ECH parsers, the
// key-matching loop and the AAD construction with attacker-chosen extensions.
func verifC08Ext() {
	maxE := 16
	if vTier() > 0 {
		maxE = 20
	}
	E := vInt(0, maxE)
	ext := vBytes(E)
	random := vBytes(32)
	hello := vCat([]byte{0x03, 0x03}, random, []byte{0x00, 0x00, 0x02, 0x13, 0x01, 0x01, 0x00}, vU16(E), ext)
	msg := vCat([]byte{0x01}, vU24(len(hello)), hello)
	rec := vCat([]byte{0x16, 0x03, 0x01}, vU16(len(msg)), msg)
	tr := newVTransport(rec)
	c, err := NewConn(context.Background(), tr, WithKeys(vC08Key()))
	if err != nil {
		vReach("newconn-error")
		vC08Refused(c)
		return
	}
	vReach("newconn-ok")
	vC08Reads(c, 2)
}

// vC08Refused: what a caller may still do with the outcome of a failed NewConn -
// log through the accessors, Read, Write, Close - never panics; the watcher
// goroutine of the failed call has gone.
func vC08Refused(c *Conn) {
	vAssert(vQuiesce() == 0, "a failed NewConn leaves no goroutine behind")
	_ = c.ServerName()
	_ = c.ALPNProtos()
	_ = c.ECHPresented()
	vAssert(!c.ECHAccepted(), "a failed NewConn is not an accepted one")
	if c != nil {
		buf := make([]byte, 8)
		_, _ = c.Read(buf)
		_, _ = c.Write(nil)
		_ = c.Close()
	}
}

func vC08Reads(c *Conn, k int) {
	buf := make([]byte, 64)
	for i := 0; i < k; i++ {
		n, err := c.Read(buf)
		vAssert(n >= 0 && n <= len(buf), "Read count in range")
		vAssert(n > 0 || err != nil, "Read returns data or an error")
		vAssert(len(c.readBuf) <= 16389+256, "readBuf bounded")
		if err != nil {
			break
		}
	}
}

// vAcceptedConn builds the state NewConn leaves behind after an accepted ECH
// (inspection still armed in both directions) around the given transport.
func vAcceptedConn(tr *vTransport, readBuf []byte) *Conn {
	outer := &clientHello{LegacyVersion: 0x0303, tls13: true, ServerName: "pub.example",
		echExt: &echExt{Type: 0, CipherSuite: CipherSuite{1, 1}, ConfigID: 7, Enc: make([]byte, 32), Payload: make([]byte, 40)}}
	inner := &clientHello{LegacyVersion: 0x0303, tls13: true, ServerName: "secret.example", ALPNProtos: []string{"h2"},
		echExt: &echExt{Type: 1}}
	return &Conn{Conn: tr, outer: outer, inner: inner, keys: vC08Key(), debugf: func(string, ...any) {},
		readBuf: readBuf, retryCount: new(atomic.Int32)}
}

// vRecordStream builds up to k records with symbolic type/version, a length
// that is either small (body materialised) or a boundary value with a short
// body, then cuts the stream at a symbolic offset.
func vRecordStream(k, maxBody int) []byte {
	var in []byte
	nrec := vInt(0, k)
	for i := 0; i < nrec; i++ {
		typ := vByte()
		var l, have int
		switch vInt(0, 2) {
		case 0:
			l = vInt(0, maxBody)
			have = l
		case 1:
			l = []int{16384, 16385, 18432, 18433}[vInt(0, 3)] // around the plaintext limit and around the largest record accepted (2^14+2048)
			have = vInt(0, 2)
		default:
			l = 65535
			have = vInt(0, 1)
		}
		in = vCat(in, []byte{typ, vByte(), vByte(), byte(l >> 8), byte(l)}, vBytes(have))
	}
	if len(in) > 0 {
		in = in[:vInt(0, len(in))]
	}
	return in
}

// verifC08ReadArmed: client records arriving after an accepted hello, with and
// without a HelloRetryRequest seen; the stream may end (EOF or error) anywhere.
func verifC08ReadArmed() {
	k, body := 2, 3
	if vTier() > 0 {
		k, body = 2, 5
	}
	in := vRecordStream(k, body)
	tr := newVTransport(in)
	if vBool() {
		tr.endErr = errVTransport
	}
	c := vAcceptedConn(tr, nil)
	if vBool() {
		c.retryCount.Store(1)
	}
	vReach("armed")
	vC08Reads(c, k+2)
}

// verifC08WriteArmed: arbitrary backend bytes split over up to three Write calls.
func verifC08WriteArmed() {
	n := 10
	if vTier() > 0 {
		n = 16
	}
	tr := newVTransport(nil)
	c := vAcceptedConn(tr, nil)
	total := 0
	for i := 0; i < 3; i++ {
		k := vInt(0, n-total)
		total += k
		b := vBytes(k)
		m, err := c.Write(b)
		vAssert(m >= 0 && m <= len(b), "Write count in range")
		vAssert(len(c.writeBuf) <= 5+16384+256+len(b), "writeBuf bounded")
		if err != nil {
			// a caller that keeps writing after the failure does not make the Conn grow
			held := len(c.writeBuf)
			for j := 0; j < 2; j++ {
				_, err2 := c.Write([]byte{1, 2, 3})
				vAssert(err2 != nil, "a Conn whose backend stream was refused keeps refusing")
			}
			vAssert(len(c.writeBuf) <= held+8, "writes after a failure are not accumulated")
			vReach("write-error")
			return
		}
		vAssert(m == len(b), "successful Write consumes everything")
	}
	vReach("writes-done")
}

// vBoundRecordLengths restricts the length field of the first record header in a
// raw stream to 0..max+1 or one of the boundary values 16384, 16385, 16640,
// 16641, 65535.  A record announcing more bytes than the stream holds behaves
// the same for every such length (io.ReadFull meets the end of the stream), so
// this loses no behaviour; it keeps the number of concretised lengths small.
func vBoundRecordLengths(b []byte, max int) {
	if len(b) < 5 {
		return
	}
	l := int(b[3])<<8 | int(b[4])
	vAssume(l <= max+1 || l == 16384 || l == 16385 || l == 16640 || l == 16641 || l == 65535)
}

// verifC08AroundECH: a structured outer ECH extension (symbolic suite, config id,
// 32-byte enc, short payload) surrounded by raw extension bytes on both sides:
// reaches SetupReceipient, the AAD construction and Open with hostile layouts
// (duplicate ECH extensions, ECH extension not last, trailing bytes).
func verifC08AroundECH() {
	var pre, post []byte
	if vBool() {
		pre = vBytes(vInt(0, 5))
		if len(pre) >= 4 {
			// the raw extension in front must not swallow the structured ECH extension
			// (an ALPN/SNI list parsed over 40+ symbolic bytes has exponentially many
			// length compositions; raw extension blocks are verifC08Ext's job)
			vAssume(int(pre[2])<<8|int(pre[3]) <= len(pre)-4)
		}
	} else {
		post = vBytes(vInt(1, 5))
	}
	enc := vBytes(32)
	payload := vBytes(vInt(1, 3))
	id := vByte()
	echData := vCat([]byte{0x00}, vU16(int(vUint16())), vU16(int(vUint16())), []byte{id}, vU16(len(enc)), enc, vU16(len(payload)), payload)
	ech := vCat([]byte{0xfe, 0x0d}, vU16(len(echData)), echData)
	sv := []byte{0x00, 0x2b, 0x00, 0x03, 0x02, 0x03, 0x04}
	ext := vCat(sv, pre, ech, post)
	hello := vCat([]byte{0x03, 0x03}, vBytes(32), []byte{0x00, 0x00, 0x02, 0x13, 0x01, 0x01, 0x00}, vU16(len(ext)), ext)
	msg := vCat([]byte{0x01}, vU24(len(hello)), hello)
	rec := vCat([]byte{0x16, 0x03, 0x01}, vU16(len(msg)), msg)
	tr := newVTransport(rec)
	priv, pub := vKey(0)
	cfg := vConfig(id, pub, [][2]uint16{{1, 1}, {1, 3}}, []byte("pub.example"))
	c, err := NewConn(context.Background(), tr, WithKeys([]Key{{Config: cfg, PrivateKey: priv}}))
	if err != nil {
		vReach("newconn-error")
		return
	}
	vReach("newconn-ok")
	vAssert(!c.ECHAccepted(), "nothing was sealed: ECH cannot be accepted")
}

// verifC08InnerRaw: the ECH config is public, so any client can seal any bytes
// to it: the decrypted "EncodedClientHelloInner" is attacker-chosen.  Arbitrary
// plaintext of up to 44+slack bytes (and, pinned fixed part, a raw inner
// extension block) must never crash NewConn or the following Reads.
func verifC08InnerRaw() {
	name := []byte("pub.example")
	k := vMakeKey(0, vByte(), [][2]uint16{{1, 1}}, name)
	outer := vHello{version: 0x0303, random: vBytes(32), sid: vBytes(1), suites: []byte{0x13, 0x01}, comp: []byte{0}}
	outer.exts = []vExt{vSNI(name), vVersions(0x0304), {51, vBytes(1)}, {0xfe0d, nil}}
	var pt []byte
	if vBool() {
		slack := 2 + 2*vTier()
		pt = vBytes(vInt(0, 40+slack)) // fully raw inner encoding
	} else {
		maxE := 13 + 3*vTier()
		e := vBytes(vInt(0, maxE)) // pinned fixed part, raw inner extension block
		pt = vCat([]byte{0x03, 0x03}, vBytes(32), []byte{0x00, 0x00, 0x02, 0x13, 0x01, 0x01, 0x00}, vU16(len(e)), e, make([]byte, vInt(0, 1)))
	}
	s := vSeal(k, 1, 1, outer, 3, pt)
	tr := newVTransport(s.outer.record())
	c, err := NewConn(context.Background(), tr, WithKeys([]Key{k.key()}))
	vObserve(err == nil, len(pt))
	if err != nil {
		vReach("inner-refused")
		vAssert(len(tr.out) == 7 && tr.closed, "a refused inner hello is answered with one alert and end of stream")
		vC08Refused(c)
		return
	}
	vReach("inner-ok")
	// (an authentic but empty plaintext is treated like a failed decryption: the
	// AEAD returns a nil slice and the outer hello is passed through)
	vAssert(c.ECHAccepted() || len(pt) == 0, "an authentic payload with a well-formed inner hello is accepted")
	vC08Reads(c, 2)
}

// verifC08RetryExt: after an accepted first hello and a HelloRetryRequest, the
// client's second hello is hostile: (a) pinned fixed part with a raw symbolic
// extension block, or (b) an authentic seal (sequence number 1) over raw
// plaintext / a raw inner extension block.  Read must return (no panic, no
// spin), and a refusal is answered with one alert and end of stream.
func verifC08RetryExt() {
	st, tr, c := vC06Setup()
	hrr := vServerHello(vHRRRandom, st.first.outer.sid)
	n, err := c.Write(hrr)
	vAssert(err == nil && n == len(hrr), "HelloRetryRequest forwarded")
	var rec []byte
	if vBool() {
		E := vInt(0, 12+4*vTier())
		ext := vBytes(E)
		hello := vCat([]byte{0x03, 0x03}, vBytes(32), []byte{0x00, 0x00, 0x02, 0x13, 0x01, 0x01, 0x00}, vU16(E), ext)
		rec = vRecord(22, 0x0301, vHandshake(hello))
	} else {
		outer2 := vHello{version: 0x0303, random: st.first.outer.random, sid: st.first.outer.sid, suites: []byte{0x13, 0x01}, comp: []byte{0}}
		outer2.exts = []vExt{vSNI(st.name), vVersions(0x0304), {51, vBytes(2)}, {0xfe0d, nil}}
		var pt []byte
		if vBool() {
			pt = vBytes(vInt(0, 40+2*vTier()))
		} else {
			e := vBytes(vInt(0, 10+3*vTier()))
			pt = vCat([]byte{0x03, 0x03}, vBytes(32), []byte{0x00, 0x00, 0x02, 0x13, 0x01, 0x01, 0x00}, vU16(len(e)), e)
		}
		s2 := vSealWith(st.first.sender, []byte{}, st.k.id, 1, 1, outer2, 3, pt)
		rec = s2.outer.record()
	}
	before := len(tr.out)
	tr.in = append(tr.in, rec...)
	buf := make([]byte, 700)
	rn, rerr := c.Read(buf)
	vAssert(rn >= 0 && rn <= len(buf), "Read count in range")
	if rerr != nil {
		vAssert(rn == 0, "a refused retried hello forwards nothing")
		vAssert(len(tr.out) == before+7 && tr.closed, "a refused retried hello is answered with one alert and end of stream")
		vReach("retry-refused")
		return
	}
	vReach("retry-passed")
	vC08Reads(c, 2)
}

// verifC08ServerHello: hostile backend bytes in a ServerHello-typed handshake
// record (legacy version, random symbolic or the HelloRetryRequest value, then
// raw bytes: session id, cipher suite, compression, extension block), written
// whole or split after the record header: Write returns, in range.
func verifC08ServerHello() {
	random := vBytes(32)
	if vBool() {
		random = vHRRRandom
	}
	rest := vBytes(vInt(0, 10+4*vTier()))
	body := vCat([]byte{0x03, 0x03}, random, rest)
	msg := vCat([]byte{0x02}, vU24(len(body)), body)
	if vBool() {
		// an inconsistent handshake length
		msg[3] = vByte()
	}
	rec := vRecord(22, 0x0303, msg)
	tr := newVTransport(nil)
	c := vAcceptedConn(tr, nil)
	pieces := [][]byte{rec}
	if vBool() {
		pieces = [][]byte{rec[:5], rec[5:]}
	}
	for _, p := range pieces {
		m, err := c.Write(p)
		vAssert(m >= 0 && m <= len(p), "Write count in range")
		if err != nil {
			vReach("sh-refused")
			return
		}
	}
	vAssert(vBytesEq(tr.out, rec), "an accepted ServerHello record is forwarded unchanged")
	vReach("sh-passed")
}
