package ech

// Shared harness support: a scriptable transport and small helpers.
// Ordinary Go: interpreted symbolically by the engine and compiled for native replay.

import (
	"errors"
	"io"
	"net"
	"time"
)

var errVTransport = errors.New("verif: injected transport error")

type vAddr struct{}

func (vAddr) Network() string { return "verif" }
func (vAddr) String() string  { return "verif" }

// vTransport is the client-side net.Conn handed to NewConn.
type vTransport struct {
	errWithData     bool // the transport hands over its last bytes together with its final error
	in      []byte // bytes the client sends
	rpos    int
	chunked bool  // Read returns a nondeterministic 1, 2 or all available bytes
	chunk   int   // if > 0: Read returns at most this many bytes
	endErr  error // error reported at end of input (default io.EOF)

	out             []byte // everything written to the client
	writeCalls      int
	failWriteAt     int  // index of the Write call that fails (-1: never)
	shortWrite      bool // a failing write first accepts a nondeterministic prefix
	closed          bool
	closeCalls      int
	deadlines       int
	readCalls       int
	writeAfterClose int
}

func newVTransport(in []byte) *vTransport {
	return &vTransport{in: in, failWriteAt: -1}
}

func (t *vTransport) Read(b []byte) (int, error) {
	t.readCalls++
	if t.closed {
		return 0, net.ErrClosed
	}
	if len(b) == 0 {
		return 0, nil
	}
	avail := len(t.in) - t.rpos
	if avail == 0 {
		if t.endErr != nil {
			return 0, t.endErr
		}
		return 0, io.EOF
	}
	n := avail
	if n > len(b) {
		n = len(b)
	}
	if t.chunk > 0 && n > t.chunk {
		n = t.chunk
	}
	if t.chunked && n > 1 {
		// chunk sizes: one byte, two bytes, or everything available
		switch vInt(0, 2) {
		case 0:
			n = 1
		case 1:
			n = 2
		}
	}
	copy(b, t.in[t.rpos:t.rpos+n])
	t.rpos += n
	if t.errWithData && t.rpos == len(t.in) {
		if t.endErr != nil {
			return n, t.endErr
		}
		return n, io.EOF
	}
	return n, nil
}

func (t *vTransport) Write(b []byte) (int, error) {
	idx := t.writeCalls
	t.writeCalls++
	if t.closed {
		t.writeAfterClose++
		return 0, net.ErrClosed
	}
	if idx == t.failWriteAt {
		n := 0
		if t.shortWrite && len(b) > 0 {
			n = vInt(0, len(b)-1)
		}
		t.out = append(t.out, b[:n]...)
		return n, errVTransport
	}
	t.out = append(t.out, b...)
	return len(b), nil
}

func (t *vTransport) Close() error {
	t.closeCalls++
	t.closed = true
	return nil
}
func (t *vTransport) LocalAddr() net.Addr              { return vAddr{} }
func (t *vTransport) RemoteAddr() net.Addr             { return vAddr{} }
func (t *vTransport) SetDeadline(time.Time) error      { t.deadlines++; return nil }
func (t *vTransport) SetReadDeadline(time.Time) error  { t.deadlines++; return nil }
func (t *vTransport) SetWriteDeadline(time.Time) error { t.deadlines++; return nil }

// vConfig builds an ECH config for key i with the given id, through the reference
// layout of draft-ietf-tls-esni section 4 (independent of ConfigSpec.Bytes).
func vConfig(id byte, pub []byte, suites [][2]uint16, publicName []byte) []byte {
	var c []byte
	c = append(c, id)
	c = append(c, 0x00, 0x20) // kem
	c = append(c, byte(len(pub)>>8), byte(len(pub)))
	c = append(c, pub...)
	c = append(c, byte((len(suites)*4)>>8), byte(len(suites)*4))
	for _, s := range suites {
		c = append(c, byte(s[0]>>8), byte(s[0]), byte(s[1]>>8), byte(s[1]))
	}
	ml := len(publicName) + 16
	if ml > 255 {
		ml = 255
	}
	c = append(c, byte(ml))
	c = append(c, byte(len(publicName)))
	c = append(c, publicName...)
	c = append(c, 0, 0) // extensions
	out := []byte{0xfe, 0x0d, byte(len(c) >> 8), byte(len(c))}
	return append(out, c...)
}

func vU16(v int) []byte { return []byte{byte(v >> 8), byte(v)} }
func vU24(v int) []byte { return []byte{byte(v >> 16), byte(v >> 8), byte(v)} }

func vCat(parts ...[]byte) []byte {
	var out []byte
	for _, p := range parts {
		out = append(out, p...)
	}
	return out
}

func vBytesEq(a, b []byte) bool {
	if len(a) != len(b) {
		return false
	}
	eq := true
	for i := range a {
		if a[i] != b[i] {
			eq = false
		}
	}
	return eq
}
