package ech

import "context"

// C05: without ECH acceptance the connection is passed through unmodified.

// vRefHello is the result of the strict reference recogniser.
type vRefHello struct {
	ok      bool
	sni     []byte
	hasSNI  bool
	alpn    [][]byte
	tls13   bool
	hasECH  bool
	echType byte
}

func vU16At(b []byte, i int) int { return int(b[i])<<8 | int(b[i+1]) }

// vRecognise is a strict recogniser of RFC 8446 4.1.2 ClientHello syntax for
// one record holding exactly one handshake message: every length must be
// consistent, nothing may trail, the extension block is optional, extension
// types are unique, and SNI / ALPN / supported_versions / ECH must be well
// formed.  Written from the RFCs, independent of the code under test.
func vRecognise(rec []byte) vRefHello {
	var r vRefHello
	if len(rec) < 5 || rec[0] != 22 || vU16At(rec, 3) != len(rec)-5 {
		return r
	}
	m := rec[5:]
	if len(m) < 4 || m[0] != 1 || int(m[1])<<16|int(m[2])<<8|int(m[3]) != len(m)-4 {
		return r
	}
	b := m[4:]
	if len(b) < 2+32+1 {
		return r
	}
	p := 34
	sl := int(b[p])
	p++
	if sl > 32 || len(b) < p+sl+2 {
		return r
	}
	p += sl
	cl := vU16At(b, p)
	p += 2
	if cl < 2 || cl%2 != 0 || len(b) < p+cl+1 {
		return r
	}
	p += cl
	ml := int(b[p])
	p++
	if ml < 1 || len(b) < p+ml {
		return r
	}
	p += ml
	if p == len(b) {
		r.ok = true // no extension block (legal before TLS 1.3)
		return r
	}
	if len(b) < p+2 || vU16At(b, p) != len(b)-p-2 {
		return r
	}
	p += 2
	var seen []int
	for p < len(b) {
		if len(b) < p+4 {
			return r
		}
		typ := vU16At(b, p)
		dl := vU16At(b, p+2)
		p += 4
		if len(b) < p+dl {
			return r
		}
		d := b[p : p+dl]
		p += dl
		for _, s := range seen {
			if s == typ {
				return r
			}
		}
		seen = append(seen, typ)
		switch typ {
		case 0:
			// ServerNameList with exactly one host_name entry
			if len(d) < 2 || vU16At(d, 0) != len(d)-2 || len(d) < 5 || d[2] != 0 {
				return r
			}
			nl := vU16At(d, 3)
			if nl < 1 || nl != len(d)-5 {
				return r
			}
			r.hasSNI = true
			r.sni = d[5:]
		case 16:
			if len(d) < 2 || vU16At(d, 0) != len(d)-2 || len(d) < 4 {
				return r
			}
			q := 2
			for q < len(d) {
				n := int(d[q])
				q++
				if n < 1 || len(d) < q+n {
					return r
				}
				r.alpn = append(r.alpn, d[q:q+n])
				q += n
			}
		case 43:
			if len(d) < 1 || int(d[0]) != len(d)-1 || d[0] < 2 || d[0]%2 != 0 {
				return r
			}
			for q := 1; q+1 < len(d); q += 2 {
				if vU16At(d, q) >= 0x0304 {
					r.tls13 = true
				}
			}
		case 0xfe0d:
			if len(d) < 1 || d[0] > 1 {
				return r
			}
			r.hasECH = true
			r.echType = d[0]
			if d[0] == 1 {
				if len(d) != 1 {
					return r
				}
			} else {
				if len(d) < 8 {
					return r
				}
				el := vU16At(d, 6)
				if len(d) < 8+el+2 {
					return r
				}
				pl := vU16At(d, 8+el)
				if pl < 1 || len(d) != 8+el+2+pl {
					return r
				}
			}
		case 0xfd00:
			return r // never legal in an outer hello
		}
	}
	r.ok = true
	return r
}

func vCheckPassthrough(rec []byte, keys []Key, strict bool) {
	vCheckPassthroughTLS(rec, keys, strict, true)
}

func vCheckPassthroughTLS(rec []byte, keys []Key, strict, tlsOracle bool) {
	tr := newVTransport(rec)
	var opts []Option
	if keys != nil {
		opts = append(opts, WithKeys(keys))
	}
	c, err := NewConn(context.Background(), tr, opts...)
	if err != nil {
		vReach("refused")
		if strict {
			ref := vRecognise(rec)
			illegalInner := ref.hasECH && ref.echType == 1 && keys != nil
			vAssert(!ref.ok || illegalInner, "a syntactically valid ClientHello is not refused")
		}
		return
	}
	vReach("passed")
	vAssert(!c.ECHAccepted(), "no seal was registered: not accepted")
	vAssert(len(tr.out) == 0 && !tr.closed, "a passed-through hello: nothing is written to the client, the connection stays open")
	got, _ := vReadAll(c, 400, len(rec))
	vAssert(len(got) == len(rec), "forwarded record has the client's length")
	vAssert(got[0] == rec[0] && got[3] == rec[3] && got[4] == rec[4], "record type and length unchanged")
	vAssert(vBytesEq(got[5:], rec[5:]), "ClientHello message forwarded byte for byte")
	if strict {
		ref := vRecognise(rec)
		if ref.ok {
			vReach("valid")
			if ref.hasSNI {
				vAssert(vBytesEq([]byte(c.ServerName()), ref.sni), "ServerName equals the reference extraction")
			} else {
				vAssert(c.ServerName() == "", "no SNI: empty ServerName")
			}
			al := c.ALPNProtos()
			vAssert(len(al) == len(ref.alpn), "ALPN list length equals the reference extraction")
			for i := range al {
				if i < len(ref.alpn) {
					vAssert(vBytesEq([]byte(al[i]), ref.alpn[i]), "ALPN entry equals the reference extraction")
				}
			}
			// an independent TLS stack (crypto/tls's server) fed the forwarded bytes
			if !tlsOracle {
				return
			}
			if tok, tsni, talpn := vTLSExtract(got); tok {
				vReach("tls-agrees")
				vAssert(tsni == c.ServerName(), "ServerName equals what crypto/tls extracts from the forwarded bytes")
				vAssert(len(talpn) == len(al), "ALPN list equals what crypto/tls extracts (length)")
				for i := range talpn {
					if i < len(al) {
						vAssert(talpn[i] == al[i], "ALPN list equals what crypto/tls extracts")
					}
				}
			}
		}
	}
}

// verifC05Raw: record header + fully symbolic handshake message.
func verifC05Raw() {
	slack := 3
	if vTier() > 0 {
		slack = 7
	}
	L := vInt(40, 44+slack)
	body := vBytes(L)
	rec := vCat([]byte{22, vByte(), vByte(), byte(L >> 8), byte(L)}, body)
	var keys []Key
	if vBool() {
		keys = vC08Key()
	}
	vCheckPassthrough(rec, keys, true)
}

// verifC05Ext: fixed part pinned, extension block symbolic (optionally absent).
func verifC05Ext() {
	maxE := 12
	if vTier() > 0 {
		maxE = 18
	}
	E := vInt(-1, maxE)
	var tail []byte
	if E >= 0 {
		tail = vCat(vU16(E), vBytes(E))
	}
	hello := vCat([]byte{0x03, 0x03}, vBytes(32), []byte{0x00, 0x00, 0x02, 0x13, 0x01, 0x01, 0x00}, tail)
	// optionally, bytes after the ClientHello structure inside the handshake message
	msg := vCat([]byte{0x01}, vU24(len(hello)), hello)
	rec := vCat([]byte{0x16, 0x03, 0x01}, vU16(len(msg)), msg)
	var keys []Key
	if vBool() {
		keys = vC08Key()
	}
	vCheckPassthrough(rec, keys, true)
}

// verifC05Structured: GREASE ECH, unknown config id, undecryptable payload,
// pre-1.3 version lists, no supported_versions, unknown extensions.
func verifC05Structured() {
	name := vBytes(vInt(1, 3))
	exts := []vExt{vSNI(name)}
	if vBool() {
		exts = append(exts, vALPN([][]byte{vBytes(vInt(1, 2)), vBytes(1)}))
	}
	switch vInt(0, 2) {
	case 0:
		exts = append(exts, vVersions(0x0304, 0x0303))
	case 1:
		exts = append(exts, vVersions(vUint16()))
	}
	exts = append(exts, vExt{vUint16(), vBytes(vInt(0, 2))})
	keys := vC08Key()
	switch vInt(0, 2) {
	case 0: // GREASE / unknown id / undecryptable: outer-type ECH with free fields
		exts = append(exts, vECHOuter(vUint16(), vUint16(), vByte(), vBytes(32), vBytes(vInt(1, 3))))
	case 1:
		keys = nil
		exts = append(exts, vECHInner())
	}
	h := vHello{version: vUint16(), random: vBytes(32), sid: vBytes(vInt(0, 2)), suites: vBytes(2 * vInt(1, 2)), comp: []byte{0}, exts: exts}
	vAssume(exts[len(exts)-1].typ != 0xfd00 && exts[len(exts)-2].typ != 0xfd00)
	vCheckPassthroughTLS(h.record(), keys, true, vTier() > 0) // crypto/tls oracle in the thorough tier (x7 paths)
}

// verifC05Later: when an ECH extension was presented but not accepted (GREASE,
// unknown id, no keys), every later record in either direction passes through
// untouched and uninterpreted - including a HelloRetryRequest, a second
// ClientHello, a TLS 1.2 ServerHello without extensions and opaque handshake
// records.
func verifC05Later() {
	name := vBytes(2)
	withKeys := vBool()
	var exts []vExt
	kind := vInt(0, 4)
	switch kind {
	case 0: // GREASE / unknown ECH on a TLS 1.3 hello
		exts = []vExt{vSNI(name), vVersions(0x0304), vECHOuter(vUint16(), vUint16(), vByte(), vBytes(32), vBytes(3))}
	case 1: // no ECH at all
		exts = []vExt{vSNI(name), vVersions(0x0304), {51, vBytes(2)}}
	case 2: // ECH on a hello that offers TLS 1.2 only
		exts = []vExt{vSNI(name), vVersions(0x0303), vECHOuter(1, 1, vByte(), vBytes(32), vBytes(3))}
	case 3: // ECH on a hello without supported_versions
		exts = []vExt{vSNI(name), vECHOuter(1, 1, vByte(), vBytes(32), vBytes(3))}
	case 4: // inner-type ECH (backend-bound hello) at a server without keys
		exts = []vExt{vSNI(name), vVersions(0x0304), vECHInner()}
		withKeys = false
	}
	h := vHello{version: 0x0303, random: vBytes(32), sid: vBytes(1), suites: []byte{0x13, 0x01}, comp: []byte{0}, exts: exts}
	var opts []Option
	if withKeys {
		opts = append(opts, WithKeys(vC08Key()))
	}
	tr := newVTransport(h.record())
	// the client may already have sent more (early data, a pipelined record) when NewConn runs
	early := []byte{}
	if vBool() {
		early = vRecord(23, 0x0303, vBytes(2))
		tr.in = vCat(tr.in, early)
	}
	c, err := NewConn(context.Background(), tr, opts...)
	vAssert(err == nil && !c.ECHAccepted(), "GREASE / unknown ECH passes through")
	vAssert(c.ECHPresented() == (kind == 0 || kind == 2 || kind == 3), "ECHPresented reports an outer-type ECH extension, and only that")
	vAssert(len(tr.out) == 0 && !tr.closed, "nothing is written to the client, the connection stays open")
	first, _ := vReadAll(c, 400, len(tr.in))
	vAssert(vBytesEq(first, vCat(h.record(), early)), "hello (and what the client had already sent behind it) forwarded unchanged")
	var wantOut []byte
	for i := 0; i < 3; i++ {
		var rec []byte
		toBackend := false
		switch vInt(0, 6) {
		case 5: // client bytes that are not record-aligned / announce an illegal length: nothing may be parsed
			toBackend = true
			rec = vCat([]byte{22, 3, 3, 0xFF, 0xFF}, vBytes(vInt(0, 2)))
		case 6: // the same from the backend
			rec = vCat([]byte{22, 3, 3, 0xFF, 0xFF}, vBytes(vInt(0, 2)))
		case 0: // HelloRetryRequest from the backend
			rec = vServerHello(vHRRRandom, h.sid)
		case 1: // TLS 1.2 style ServerHello without an extension block
			body := vCat([]byte{0x03, 0x03}, vBytes(32), []byte{0}, []byte{0x00, 0x2f, 0x00})
			rec = vRecord(22, 0x0303, vCat([]byte{0x02}, vU24(len(body)), body))
		case 2: // opaque (encrypted) handshake record whose first byte looks like ServerHello
			rec = vRecord(22, 0x0303, vCat([]byte{0x02}, vBytes(2)))
		case 3: // the client's second ClientHello (arbitrary contents)
			toBackend = true
			h2 := h
			h2.random = vBytes(32)
			h2.exts = []vExt{vSNI(name), vVersions(0x0304), {51, vBytes(2)}}
			rec = h2.record()
		case 4: // any other client record
			toBackend = true
			rec = vRecord(vByte(), 0x0303, vBytes(2))
		}
		if toBackend {
			tr.in = append(tr.in, rec...)
			got, rerr := vReadAll(c, 400, len(rec))
			vAssert(rerr == nil && vBytesEq(got, rec), "later client record forwarded unchanged")
		} else {
			before := len(tr.out)
			n, werr := c.Write(rec)
			vAssert(werr == nil && n == len(rec), "later backend record accepted")
			vAssert(vBytesEq(tr.out[before:], rec), "later backend record forwarded unchanged")
			wantOut = vCat(wantOut, rec)
		}
	}
	vAssert(!tr.closed && vBytesEq(tr.out, wantOut), "the client received exactly what the backend wrote; connection left alone")
	cerr := c.Close()
	vAssert(cerr == nil && tr.closeCalls == 1 && vBytesEq(tr.out, wantOut), "Close closes the connection once and writes nothing")
	vReach("later")
}

// verifC05SealedNoTLS13: an authentic, correctly sealed payload inside an outer
// hello that does not offer TLS 1.3 (TLS 1.2 only, two pre-1.3 versions, or no
// supported_versions): ECH is not processed; the outer hello is forwarded
// unchanged.
func verifC05SealedNoTLS13() {
	name := []byte("pub.example")
	k := vMakeKey(0, vByte(), [][2]uint16{{1, 1}}, name)
	outer := vHello{version: 0x0303, random: vBytes(32), sid: vBytes(1), suites: []byte{0x13, 0x01}, comp: []byte{0}}
	echIdx := 2
	switch vInt(0, 2) {
	case 0:
		v := vUint16()
		vAssume(v < 0x0304)
		outer.exts = []vExt{vSNI(name), vVersions(v), {0xfe0d, nil}}
	case 1:
		outer.exts = []vExt{vSNI(name), vVersions(0x0303, 0x0302), {0xfe0d, nil}}
	case 2:
		outer.exts = []vExt{vSNI(name), {0xfe0d, nil}}
		echIdx = 1
	}
	inner := vHello{version: 0x0303, random: vBytes(32), suites: []byte{0x13, 0x02}, comp: []byte{0},
		exts: []vExt{vSNI(vBytes(2)), vECHInner(), vVersions(0x0304)}}
	s := vSeal(k, 1, 1, outer, echIdx, vEncodeInner(inner, 0))
	rec := s.outer.record()
	tr := newVTransport(rec)
	c, err := NewConn(context.Background(), tr, WithKeys([]Key{k.key()}))
	vAssert(err == nil, "a hello that does not offer TLS 1.3 passes through")
	vAssert(!c.ECHAccepted(), "ECH is not processed for a hello that does not offer TLS 1.3")
	got, _ := vReadAll(c, 400, len(rec))
	vAssert(vBytesEq(got, rec), "the outer hello is forwarded unchanged")
	vAssert(c.ServerName() == string(name), "ServerName is the outer hello's")
	vReach("no-tls13")
}

// verifC05TwoConns: two connections handled one after the other by the same
// process; the first (passed through) is drained only after the second hello
// has been processed.  Each backend still receives its own client's bytes
// (nothing is shared between connections, e.g. through recycled buffers).
func verifC05TwoConns() {
	mk := func(tag byte) []byte {
		h := vHello{version: 0x0303, random: vBytes(32), sid: []byte{tag}, suites: []byte{0x13, 0x01}, comp: []byte{0},
			exts: []vExt{vSNI([]byte{'a' + tag, '.', 'x'}), vVersions(0x0304), {51, vBytes(2)}}}
		return h.record()
	}
	recA, recB := mk(1), mk(2)
	var opts []Option
	if vBool() {
		opts = append(opts, WithKeys(vC08Key()))
	}
	a, errA := NewConn(context.Background(), newVTransport(recA), opts...)
	b, errB := NewConn(context.Background(), newVTransport(recB), opts...)
	vAssert(errA == nil && errB == nil, "both plain hellos pass")
	gotB, _ := vReadAll(b, 400, len(recB))
	gotA, _ := vReadAll(a, 400, len(recA))
	vAssert(vBytesEq(gotA, recA), "the first connection's backend receives the first client's hello, byte for byte")
	vAssert(vBytesEq(gotB, recB), "the second connection's backend receives the second client's hello, byte for byte")
	vAssert(a.ServerName() == "b.x" && b.ServerName() == "c.x", "each connection reports its own server name")
	vReach("two-conns")
}
