package ech

import (
	"context"
	"crypto/tls"
	"net"
	"net/http"
	"net/url"

	"github.com/c2FmZQ/ech/dns"
)

// C19: Transport keeps HTTP requests encrypted, correctly named and origin-isolated.

type vH3 struct {
	called bool
	req    *http.Request
}

func (h *vH3) RoundTrip(req *http.Request) (*http.Response, error) {
	h.called = true
	h.req = req
	return &http.Response{StatusCode: 200, Request: req}, nil
}

type vC19Dial struct {
	network, addr, serverName string
}

// verifC19RoundTrip: concrete URL forms x a symbolic set of up to 3 HTTPS
// records (priority order, ALPN a symbolic subset of {h2,h3,http/1.1,x},
// no-default-alpn symbolic) x with/without an HTTP/3 round-tripper.
func verifC19RoundTrip() {
	urls := []struct{ raw, scheme, host, hostname string }{
		{"https://a.example/x", "https", "a.example", "a.example"},
		{"http://a.example/x", "http", "a.example", "a.example"},
		{"https://a.example:8443/", "https", "a.example:8443", "a.example"},
		{"http://b.example:8080/", "http", "b.example:8080", "b.example"},
	}
	_ = urls[0].host
	u := urls[vInt(0, len(urls)-1)]
	alpns := []string{"h2", "h3", "http/1.1", "x"}
	nrec := vInt(0, 2)
	var recs []dns.HTTPS
	for i := 0; i < nrec; i++ {
		h := dns.HTTPS{Priority: uint16(i + 1), NoDefaultALPN: vBool(), ECH: []byte{byte(i)}}
		if i == 0 && vBool() {
			h.Priority = 0 // alias-mode record in the answer
			h.Target = "alias.example"
		}
		for _, a := range alpns {
			if vBool() {
				h.ALPN = append(h.ALPN, a)
			}
		}
		if i == 1 && vBool() {
			h.Target = "svc.example" // a record served from another host: its addresses come from the Additional map
		}
		recs = append(recs, h)
	}
	aliasFirst := len(recs) > 0 && recs[0].Priority == 0
	dns.VerifHook_DoH = func(ctx context.Context, msg *dns.Message, URL string) (*dns.Message, error) {
		d, _ := dns.DecodeMessage(msg.Bytes())
		q := d.Question[0]
		m := &dns.Message{QR: 1}
		switch q.Type {
		case 65:
			if aliasFirst && q.Name != "alias.example" {
				m.Answer = append(m.Answer, dns.RR{Name: q.Name, Type: 65, Class: 1, TTL: 60, Data: recs[0]})
			} else {
				for i, h := range recs {
					if i == 0 && aliasFirst {
						continue
					}
					m.Answer = append(m.Answer, dns.RR{Name: q.Name, Type: 65, Class: 1, TTL: 60, Data: h})
				}
			}
		case 1:
			ip := net.IP{10, 0, 0, 9}
			if q.Name == "svc.example" {
				ip = net.IP{10, 0, 1, 9} // the service target lives elsewhere
			}
			m.Answer = append(m.Answer, dns.RR{Name: q.Name, Type: 1, Class: 1, TTL: 60, Data: ip})
		}
		return m, nil
	}
	service := recs
	if aliasFirst {
		service = recs[1:]
	}

	t := NewTransport()
	t.Resolver = &Resolver{}
	withTLSConfig := nrec == 1 // quick tier: tied to the record count; thorough: both ways (the largest record sets with the default only)
	if vTier() > 0 {
		withTLSConfig = nrec < 3 && vBool()
	}
	if withTLSConfig {
		t.TLSConfig = &tls.Config{NextProtos: []string{"h2"}, MinVersion: tls.VersionTLS13}
	}
	var h3 *vH3
	if vBool() {
		h3 = &vH3{}
		t.HTTP3Transport = h3
	}
	var dials []vC19Dial
	var dialedECH [][]byte
	t.Dialer.DialFunc = func(ctx context.Context, network, addr string, tc *tls.Config) (*tls.Conn, error) {
		dials = append(dials, vC19Dial{network, addr, tc.ServerName})
		dialedECH = append(dialedECH, tc.EncryptedClientHelloConfigList)
		return nil, errVTransport
	}
	vAssert(t.HTTPTransport.Proxy == nil, "no proxy is configured behind the caller's back")
	// the plaintext dialer installed by NewTransport always refuses
	_, perr := t.HTTPTransport.DialContext(context.Background(), "tcp", "a.example:80")
	vAssert(perr != nil, "the plaintext dialer refuses every connection")

	parsed, _ := url.Parse(u.raw)
	req := &http.Request{Method: "GET", URL: parsed, Header: http.Header{}}
	req = req.WithContext(context.Background())
	hostHdr := "" // optional Host header override naming another origin
	if nrec < 3 && vBool() {
		hostHdr = "front.example"
		req.Host = hostHdr
	}
	wantAuthority := u.host
	if hostHdr != "" {
		wantAuthority = hostHdr
	}
	origURL := *parsed
	resp, err := t.RoundTrip(req)
	vReach("roundtrip")

	// reference decision table
	wantH3 := false
	if h3 != nil {
		for _, h := range service {
			has := func(p string) bool {
				for _, a := range h.ALPN {
					if a == p {
						return true
					}
				}
				return false
			}
			if has("h3") {
				wantH3 = true
				break
			}
			if !h.NoDefaultALPN || has("h2") || has("http/1.1") {
				break
			}
		}
	}
	vAssert(*req.URL == origURL && req.Host == hostHdr, "the caller's request is not modified")
	if withTLSConfig {
		vAssert(len(t.TLSConfig.NextProtos) == 1 && t.TLSConfig.ServerName == "" && t.TLSConfig.EncryptedClientHelloConfigList == nil, "the transport's TLS configuration is not modified")
	}
	if wantH3 {
		vAssert(h3.called, "HTTP/3 chosen when the most preferred usable record offers h3")
		vAssert(err == nil && resp.Request == req, "the response is bound to the caller's request")
		tr, ok := h3.req.Context().Value(transportResolverKey).(*transportResolver)
		vAssert(ok && tr.host == u.hostname, "TLS host fixed to the URL's host name")
		for _, h := range tr.result.HTTPS {
			ok := false
			for _, a := range h.ALPN {
				if a == "h3" {
					ok = true
				}
			}
			vAssert(ok, "only records offering h3 are handed to the HTTP/3 dialer")
		}
		// ... and every one of them, in order, with its ECH config list
		var wantECH [][]byte
		for _, h := range service {
			for _, a := range h.ALPN {
				if a == "h3" {
					wantECH = append(wantECH, h.ECH)
					break
				}
			}
		}
		vAssert(len(tr.result.HTTPS) == len(wantECH), "every record offering h3 is handed to the HTTP/3 dialer")
		for i := range wantECH {
			if i < len(tr.result.HTTPS) {
				vAssert(vBytesEq(tr.result.HTTPS[i].ECH, wantECH[i]), "the h3 records keep their order and ECH config lists")
			}
		}
		vAssert(h3.req.Host == wantAuthority, "the original authority (or the caller's Host override) is sent")
		vAssert(h3.req.URL.Scheme == "https", "scheme upgraded when HTTPS records exist")
		vReach("h3")
		return
	}
	vAssert(h3 == nil || !h3.called, "HTTP/3 not chosen otherwise")
	vAssert(err != nil, "the dial failure surfaces")
	upgraded := len(service) > 0 || u.scheme == "https"
	if upgraded {
		vAssert(len(dials) >= 1, "an https request is dialled through the ECH dialer")
		// every record compatible with h2 / http/1.1 is tried (all dials fail here), with its own ECH list;
		// a dial without ECH happens only when no compatible record exists
		nCompat := 0
		for _, h := range service {
			compat := len(h.ALPN) == 0 || !h.NoDefaultALPN
			for _, a := range h.ALPN {
				if a == "h2" || a == "http/1.1" {
					compat = true
				}
			}
			if !compat {
				continue
			}
			nCompat++
			if nCompat > 1 {
				continue // (all records resolve to one address here: later ones are duplicates of the first)
			}
			found := false
			for _, e := range dialedECH {
				found = found || (e != nil && vBytesEq(e, h.ECH))
			}
			vAssert(found, "the most preferred record compatible with the chosen protocol is tried with its own ECH config list")
		}
		wantPort := "443"
		if p := parsed.Port(); p != "" {
			wantPort = p
		}
		// the exact attempts: one per compatible record in priority order, at the record's own
		// target's address, with the record's own ECH list; duplicates of an address dropped;
		// the plain address without ECH only when no record is usable
		var wantAddr []string
		var wantECH [][]byte
		for _, h := range service {
			compat := len(h.ALPN) == 0 || !h.NoDefaultALPN
			for _, a := range h.ALPN {
				if a == "h2" || a == "http/1.1" {
					compat = true
				}
			}
			if !compat {
				continue
			}
			addr := "10.0.0.9:" + wantPort
			if h.Target != "" {
				addr = "10.0.1.9:" + wantPort
			}
			dup := false
			for _, w := range wantAddr {
				dup = dup || w == addr
			}
			if !dup {
				wantAddr = append(wantAddr, addr)
				wantECH = append(wantECH, h.ECH)
			}
		}
		if len(wantAddr) == 0 {
			wantAddr, wantECH = []string{"10.0.0.9:" + wantPort}, [][]byte{nil}
		}
		vAssert(len(dials) == len(wantAddr), "one attempt per usable record (per distinct address), or one plain attempt when there is none")
		for i, d := range dials {
			if i < len(wantAddr) {
				vAssert(d.addr == wantAddr[i] && vBytesEq(dialedECH[i], wantECH[i]) && (dialedECH[i] == nil) == (wantECH[i] == nil), "attempts follow the usable records in priority order, each at its own target's address with its own ECH config list")
			}
			vAssert(dialedECH[i] != nil || nCompat == 0, "an attempt without ECH is made only when no usable HTTPS record exists")
			vAssert(d.network == "tcp", "TCP is dialled")
			vAssert(d.serverName == u.hostname, "the server is authenticated against the URL's host name")
			// the dialled target must stem from a record compatible with h2 / http/1.1 (or be the plain address)
			if dialedECH[i] != nil {
				ok := false
				for _, h := range service {
					if vBytesEq(h.ECH, dialedECH[i]) {
						compat := len(h.ALPN) == 0 || !h.NoDefaultALPN
						for _, a := range h.ALPN {
							if a == "h2" || a == "http/1.1" {
								compat = true
							}
						}
						ok = compat
					}
				}
				vAssert(ok, "dial targets restricted to records compatible with the chosen protocol")
			}
		}
		vReach("https")
	} else {
		vAssert(len(dials) == 0, "a plain http request without HTTPS records is never dialled by the ECH dialer and is refused")
		vReach("plaintext-refused")
	}
}
