package ech

// Reference ClientHello builder (RFC 8446 4.1.2 / draft-ietf-tls-esni 5), written
// from the specifications and independent of the code under test.

type vExt struct {
	typ  uint16
	data []byte
}

type vHello struct {
	version uint16
	random  []byte
	sid     []byte
	suites  []byte
	comp    []byte
	exts    []vExt
}

func vExtBlock(exts []vExt) []byte {
	var b []byte
	for _, e := range exts {
		b = append(b, byte(e.typ>>8), byte(e.typ), byte(len(e.data)>>8), byte(len(e.data)))
		b = append(b, e.data...)
	}
	return b
}

// body is the ClientHello structure (no handshake header).
func (h vHello) body() []byte {
	eb := vExtBlock(h.exts)
	return vCat(vU16(int(h.version)), h.random, []byte{byte(len(h.sid))}, h.sid, vU16(len(h.suites)), h.suites,
		[]byte{byte(len(h.comp))}, h.comp, vU16(len(eb)), eb)
}

func vHandshake(body []byte) []byte { return vCat([]byte{0x01}, vU24(len(body)), body) }

func vRecord(typ byte, ver uint16, payload []byte) []byte {
	return vCat([]byte{typ, byte(ver >> 8), byte(ver)}, vU16(len(payload)), payload)
}

func (h vHello) record() []byte { return vRecord(22, 0x0301, vHandshake(h.body())) }

func vSNI(name []byte) vExt {
	return vExt{0, vCat(vU16(len(name)+3), []byte{0}, vU16(len(name)), name)}
}

func vALPN(protos [][]byte) vExt {
	var l []byte
	for _, p := range protos {
		l = append(l, byte(len(p)))
		l = append(l, p...)
	}
	return vExt{16, vCat(vU16(len(l)), l)}
}

func vVersions(vs ...uint16) vExt {
	var l []byte
	for _, v := range vs {
		l = append(l, byte(v>>8), byte(v))
	}
	return vExt{43, vCat([]byte{byte(len(l))}, l)}
}

func vECHOuter(kdf, aead uint16, id byte, enc, payload []byte) vExt {
	return vExt{0xfe0d, vCat([]byte{0}, vU16(int(kdf)), vU16(int(aead)), []byte{id}, vU16(len(enc)), enc, vU16(len(payload)), payload)}
}

func vECHInner() vExt { return vExt{0xfe0d, []byte{1}} }

func vOuterExtensions(types []uint16) vExt {
	var l []byte
	for _, t := range types {
		l = append(l, byte(t>>8), byte(t))
	}
	return vExt{0xfd00, vCat([]byte{byte(len(l))}, l)}
}

// vKeyCfg is one server key with its config.
type vKeyCfg struct {
	priv, pub []byte
	id        byte
	suites    [][2]uint16
	name      []byte
	config    []byte
}

func vMakeKey(i int, id byte, suites [][2]uint16, name []byte) vKeyCfg {
	priv, pub := vKey(i)
	return vKeyCfg{priv: priv, pub: pub, id: id, suites: suites, name: name, config: vConfig(id, pub, suites, name)}
}

func (k vKeyCfg) key() Key { return Key{Config: k.config, PrivateKey: k.priv, SendAsRetry: true} }

// vSealed is an honest (outer, inner) pair.
type vSealed struct {
	outer     vHello // with the real payload in place
	echIndex  int    // index of the ECH extension in outer.exts
	encoded   []byte // EncodedClientHelloInner (plaintext)
	enc       []byte
	payload   []byte
	aad       []byte
	sender    int
	kdf, aead uint16
	id        byte
}

// vSeal encrypts encodedInner to key k under suite (kdf,aead) inside the outer
// hello whose extension echIndex is a placeholder for the ECH extension.
// The AAD is computed here from the draft's definition: the ClientHelloOuter
// structure with the payload bytes replaced by zeros.
func vSeal(k vKeyCfg, kdf, aead uint16, outer vHello, echIndex int, encodedInner []byte) vSealed {
	info := vCat([]byte("tls ech\x00"), k.config)
	enc, h := vHpkeSetupSender(k.priv, k.pub, kdf, aead, info)
	return vSealWith(h, enc, k.id, kdf, aead, outer, echIndex, encodedInner)
}

func vSealWith(h int, enc []byte, id byte, kdf, aead uint16, outer vHello, echIndex int, encodedInner []byte) vSealed {
	zero := make([]byte, len(encodedInner)+16)
	exts := make([]vExt, len(outer.exts))
	copy(exts, outer.exts)
	exts[echIndex] = vECHOuter(kdf, aead, id, enc, zero)
	o := outer
	o.exts = exts
	aad := o.body()
	ct := vHpkeSeal(h, aad, encodedInner)
	exts2 := make([]vExt, len(exts))
	copy(exts2, exts)
	exts2[echIndex] = vECHOuter(kdf, aead, id, enc, ct)
	o.exts = exts2
	return vSealed{outer: o, echIndex: echIndex, encoded: encodedInner, enc: enc, payload: ct, aad: aad, sender: h, kdf: kdf, aead: aead, id: id}
}

// vEncodeInner is EncodedClientHelloInner: the inner ClientHello with an empty
// legacy_session_id, followed by pad zero bytes.
func vEncodeInner(inner vHello, pad int) []byte {
	in := inner
	in.sid = nil
	return vCat(in.body(), make([]byte, pad))
}

// vReadAll drains c with a caller buffer of the given size until an error or
// max bytes; returns the bytes and the final error.
func vReadAll(c *Conn, bufSize, max int) ([]byte, error) {
	var out []byte
	buf := make([]byte, bufSize)
	for len(out) < max {
		n, err := c.Read(buf)
		out = append(out, buf[:n]...)
		if err != nil {
			return out, err
		}
		if n == 0 {
			return out, nil
		}
	}
	return out, nil
}
