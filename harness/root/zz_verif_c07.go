package ech

import (
	"context"
	"errors"
	"io"
	"sync/atomic"
)

// C07: Conn is an order-preserving, lossless byte pipe for every fragmentation and cut.

// verifC07ReadPipe: after an accepted hello (inspection armed), the client's
// remaining stream - up to k records of symbolic type/length, cut anywhere -
// arrives in symbolic chunks and is read with symbolic buffer sizes.  Every
// byte before the cut must come out, in order, before the error.
func verifC07ReadPipe() {
	k, body := 1, 2
	if vTier() > 0 {
		k, body = 2, 2
	}
	hello := []byte{22, 3, 3, 0, 2, 1, 0} // stands for the rewritten hello already buffered
	in := vRecordStream(k, body)
	tr := newVTransport(in)
	tr.chunk = []int{1, 2, 3, 0}[vInt(0, 3)] // transport chunk size: fixed per run (0: everything available)
	if vBool() {
		tr.endErr = errVTransport
	}
	tr.errWithData = vBool() // io.Reader allows (n > 0, err): the last bytes may come with the error
	c := vAcceptedConn(tr, append([]byte{}, hello...))
	var out []byte
	var err error
	bufSize := []int{1, 3, 64}[vInt(0, 2)] // caller buffer size: fixed per run
	zeroReads := vBool()                  // the caller also issues zero-length reads
	for i := 0; i < 64 && err == nil; i++ {
		buf := make([]byte, bufSize)
		var n int
		if zeroReads && i%2 == 1 {
			n0, err0 := c.Read(buf[:0])
			vAssert(n0 == 0, "a zero-length Read returns no bytes")
			if err0 != nil {
				err = err0
				break
			}
		}
		n, err = c.Read(buf)
		vAssert(n >= 0 && n <= len(buf), "Read count within the buffer")
		vAssert(n > 0 || err != nil, "Read makes progress or reports an error")
		out = append(out, buf[:n]...)
	}
	vAssert(err != nil, "the end of the stream is reported")
	// the error is sticky: later reads return nothing more
	for j := 0; j < 2; j++ {
		buf := make([]byte, 8)
		n2, err2 := c.Read(buf)
		vAssert(n2 == 0 && err2 != nil, "after the end of the stream was reported, Read returns no further bytes")
	}
	// Reference: records are relayed until the stream ends; a header announcing more
	// than the largest legal record aborts the connection right after that header,
	// unless an application_data record has already switched inspection off.
	end := len(in)
	aborted := false
	for q := 0; q+5 <= len(in); {
		l := int(in[q+3])<<8 | int(in[q+4])
		if l > 16384+2048 {
			end = q + 5
			aborted = true
			break
		}
		if in[q] == 23 {
			break
		}
		q += 5 + l
	}
	want := vCat(hello, in[:end])
	vAssert(len(out) == len(want), "every byte received before the cut is delivered, none twice")
	vAssert(vBytesEq(out, want), "bytes delivered in order and unchanged")
	if !aborted {
		// no abort: the transport's own end condition is what the caller sees
		if tr.endErr != nil {
			vAssert(errors.Is(err, errVTransport), "a transport failure is reported as such (not as a clean end of stream)")
		} else {
			vAssert(errors.Is(err, io.EOF) || errors.Is(err, io.ErrUnexpectedEOF), "a clean close is reported as end of stream")
		}
	}
	vReach("drained")
}

// verifC07WritePipe: the backend's output (up to k records, cut anywhere) is
// handed to Write in symbolic pieces; the transport may fail (with a short
// write) at a symbolic call.
func verifC07WritePipe() {
	k, body := 2, 1
	if vTier() > 0 {
		k, body = 2, 3
	}
	stream := vRecordStream(k, body)
	tr := newVTransport(nil)
	if vBool() {
		tr.failWriteAt = vInt(0, k)
		tr.shortWrite = vBool()
	}
	c := vAcceptedConn(tr, nil)
	pos := 0
	failed := false
	piece := []int{1, 2, 5, 6, 0}[vInt(0, 4)] // Write piece size: fixed per run (0: everything)
	relay := make([]byte, len(stream)+1)
	for pos < len(stream) {
		n := piece
		if n == 0 || n > len(stream)-pos {
			n = len(stream) - pos
		}
		// the caller relays through one reused buffer (as io.Copy does): the bytes
		// handed to Write are overwritten as soon as Write has returned
		copy(relay, stream[pos:pos+n])
		m, err := c.Write(relay[:n])
		for k := range relay {
			relay[k] = 0xEE
		}
		if err != nil {
			vAssert(m >= 0 && m <= n, "a failed Write reports a count within its argument")
			failed = true
			break
		}
		vAssert(m == n, "successful Write consumes its whole argument")
		pos += n
	}
	vAssert(len(tr.out) <= len(stream) && vBytesEq(tr.out, stream[:len(tr.out)]), "client receives a prefix of the backend's bytes, in order, nothing duplicated")
	if !failed {
		// at most one incomplete record is withheld
		held := len(stream) - len(tr.out)
		vAssert(held == len(c.writeBuf), "withheld bytes are exactly the write buffer")
		if held >= 5 {
			l := int(c.writeBuf[3])<<8 | int(c.writeBuf[4])
			vAssert(held < 5+l, "only an incomplete record is withheld")
		}
		vReach("written")
	} else {
		vReach("write-failed")
	}
}

// verifC07WriteStep: one inductive step of Write from an arbitrary state that
// satisfies the representation invariant (writeBuf is a proper prefix of one
// record), with an arbitrary argument.
func verifC07WriteStep() {
	tr := newVTransport(nil)
	c := &Conn{Conn: tr, debugf: func(string, ...any) {}, retryCount: new(atomic.Int32),
		inner: &clientHello{}, outer: &clientHello{echExt: &echExt{}}}
	pre := vBytes(vInt(0, 7))
	if len(pre) >= 5 {
		l := int(pre[3])<<8 | int(pre[4])
		vAssume(l <= 4 && len(pre) < 5+l) // invariant: incomplete record (small lengths materialised)
	}
	c.writeBuf = append([]byte{}, pre...)
	c.writePassthrough = vBool() // app data seen earlier (a remainder may still be buffered)
	b := vBytes(vInt(0, 6))
	all := vCat(pre, b)
	// reference: longest record-aligned prefix
	p := 0
	legal := true
	for len(all)-p >= 5 {
		l := int(all[p+3])<<8 | int(all[p+4])
		if l > 16384+2048 {
			legal = false
			break
		}
		if len(all)-p < 5+l {
			break
		}
		p += 5 + l
	}
	direct := c.writePassthrough && len(pre) == 0 // pure pass-through: nothing is framed or parsed, any bytes go
	if !direct {
		vAssume(legal)
	}
	if !c.writePassthrough {
		// while inspected, a handshake record that announces a ServerHello must be one
		q := 0
		for q < p {
			l := int(all[q+3])<<8 | int(all[q+4])
			vAssume(!(all[q] == 22 && l > 0 && all[q+5] == 2))
			if all[q] == 23 {
				break
			}
			q += 5 + l
		}
	}
	n, err := c.Write(b)
	vAssert(err == nil && n == len(b), "Write accepts legal records")
	if direct {
		vAssert(vBytesEq(tr.out, b), "pass-through forwards as is")
	} else {
		vAssert(len(tr.out) == p && vBytesEq(tr.out, all[:p]), "complete records are flushed, in order")
		vAssert(vBytesEq(c.writeBuf, all[p:]), "the incomplete tail stays buffered")
	}
	vReach("step")
}

// verifC07LegalLengths: every record length TLS permits passes in both
// directions while inspection is armed (2^14 plaintext, 2^14+256 for TLS 1.3
// ciphertext); bodies are concrete zeros (contents are never inspected).
func verifC07LegalLengths() {
	lens := []int{0, 1, 16383, 16384, 16385, 16384 + 255, 16384 + 256}
	l := lens[vInt(0, len(lens)-1)]
	typ := []byte{20, 21, 23}[vInt(0, 2)]
	rec := vCat([]byte{typ, 3, 3, byte(l >> 8), byte(l)}, make([]byte, l))
	if vBool() {
		tr := newVTransport(rec)
		c := vAcceptedConn(tr, nil)
		got, _ := vReadAll(c, 32768, len(rec))
		vAssert(len(got) == len(rec), "client record of a legal length is delivered")
		vReach("read")
	} else {
		tr := newVTransport(nil)
		c := vAcceptedConn(tr, nil)
		n, err := c.Write(rec)
		vAssert(err == nil && n == len(rec), "backend record of a legal length is accepted")
		vAssert(len(tr.out) == len(rec), "backend record of a legal length is forwarded")
		vReach("write")
	}
}

// verifC07EndToEnd: the real rewritten hellos (first and retried) drained through
// small caller buffers while the client's bytes arrive in small chunks, followed
// by an ordinary record: the backend receives exactly inner hello, retried inner
// hello, record - nothing lost, duplicated or reordered.
func verifC07EndToEnd() {
	tr := newVTransport(nil)
	tr.chunk = []int{1, 3, 0}[vInt(0, 2)]
	bufSize := []int{1, 3, 7}[vInt(0, 2)]
	var st vC06State
	st.name = []byte("pub.example")
	st.k = vMakeKey(0, vByte(), [][2]uint16{{1, 1}, {1, 3}}, st.name)
	outer := vHello{version: 0x0303, random: vBytes(32), sid: vBytes(1), suites: []byte{0x13, 0x01}, comp: []byte{0}}
	outer.exts = []vExt{vSNI(st.name), vVersions(0x0304), {51, vBytes(1)}, {0xfe0d, nil}}
	st.innerSN = vBytes(2)
	st.proto = vBytes(2)
	st.inner = vHello{version: 0x0303, random: vBytes(32), suites: []byte{0x13, 0x02}, comp: []byte{0},
		exts: []vExt{vSNI(st.innerSN), vECHInner(), vALPN([][]byte{st.proto}), vVersions(0x0304)}}
	st.first = vSeal(st.k, 1, 1, outer, 3, vEncodeInner(st.inner, 0))
	tr.in = st.first.outer.record()
	c, err := NewConn(context.Background(), tr, WithKeys([]Key{st.k.key()}))
	vAssert(err == nil && c.ECHAccepted(), "first hello accepted over a chunked transport")
	want1 := st.inner
	want1.sid = outer.sid
	msg1 := vHandshake(want1.body())
	hrr := vServerHello(vHRRRandom, outer.sid)
	rec2, msg2, _, _ := vSecondHello(st, 0)
	tail := vRecord(23, 0x0303, vBytes(2))
	var out []byte
	drain := func(n int) {
		for len(out) < n {
			buf := make([]byte, bufSize)
			k, rerr := c.Read(buf)
			vAssert(rerr == nil && k > 0, "Read makes progress while bytes are pending")
			out = append(out, buf[:k]...)
		}
	}
	n1 := 5 + len(msg1)
	drain(n1)
	vAssert(len(out) == n1 && vBytesEq(out[5:], msg1), "first inner hello delivered whole through small buffers")
	wn, werr := c.Write(hrr)
	vAssert(werr == nil && wn == len(hrr), "HelloRetryRequest forwarded")
	tr.in = append(tr.in, rec2...)
	tr.in = append(tr.in, tail...)
	n2 := n1 + 5 + len(msg2)
	drain(n2)
	vAssert(len(out) == n2 && vBytesEq(out[n1+5:], msg2), "retried inner hello delivered whole through small buffers")
	drain(n2 + len(tail))
	vAssert(len(out) == n2+len(tail) && vBytesEq(out[n2:], tail), "the record after the retried hello follows, unchanged")
	vReach("end-to-end")
}
