package ech

import (
	"context"
	"errors"
	"net"
)

// C06: only a HelloRetryRequest re-arms ECH processing, under the retry rules.

var vHRRRandom = []byte{
	0xCF, 0x21, 0xAD, 0x74, 0xE5, 0x9A, 0x61, 0x11, 0xBE, 0x1D, 0x8C, 0x02, 0x1E, 0x65, 0xB8, 0x91,
	0xC2, 0xA2, 0x11, 0x16, 0x7A, 0xBB, 0x8C, 0x5E, 0x07, 0x9E, 0x09, 0xE2, 0xC8, 0xA8, 0x33, 0x9C,
}

func vServerHello(random, sid []byte) []byte {
	ext := []byte{0x00, 0x2b, 0x00, 0x02, 0x03, 0x04}
	body := vCat([]byte{0x03, 0x03}, random, []byte{byte(len(sid))}, sid, []byte{0x13, 0x01, 0x00}, vU16(len(ext)), ext)
	return vRecord(22, 0x0303, vCat([]byte{0x02}, vU24(len(body)), body))
}

type vC06State struct {
	k       vKeyCfg
	first   vSealed
	inner   vHello
	name    []byte
	innerSN []byte
	proto   []byte
}

func vC06Setup() (vC06State, *vTransport, *Conn) {
	tr := newVTransport(nil)
	st, c := vC06SetupOn(tr, tr)
	return st, tr, c
}

// vC06SetupOn runs the first (accepted) hello over the given connection, whose
// embedded vTransport is tr.
func vC06SetupOn(conn net.Conn, tr *vTransport) (vC06State, *Conn) {
	var st vC06State
	st.name = []byte("pub.example")
	st.k = vMakeKey(0, vByte(), [][2]uint16{{1, 1}, {1, 3}}, st.name)
	outer := vHello{version: 0x0303, random: vBytes(32), sid: vBytes(1), suites: []byte{0x13, 0x01}, comp: []byte{0}}
	outer.exts = []vExt{vSNI(st.name), vVersions(0x0304), {51, vBytes(1)}, {0xfe0d, nil}}
	st.innerSN = vBytes(2)
	st.proto = vBytes(2)
	st.inner = vHello{version: 0x0303, random: vBytes(32), suites: []byte{0x13, 0x02}, comp: []byte{0},
		exts: []vExt{vSNI(st.innerSN), vECHInner(), vALPN([][]byte{st.proto}), vVersions(0x0304)}}
	st.first = vSeal(st.k, 1, 1, outer, 3, vEncodeInner(st.inner, 0))
	tr.in = st.first.outer.record()
	c, err := NewConn(context.Background(), conn, WithKeys([]Key{st.k.key()}))
	vAssert(err == nil && c.ECHAccepted(), "first hello accepted")
	want := st.inner
	want.sid = outer.sid
	wantMsg := vHandshake(want.body())
	got, _ := vReadAll(c, 400, 5+len(wantMsg))
	vAssert(len(got) == 5+len(wantMsg) && vBytesEq(got[5:], wantMsg), "first inner hello delivered")
	return st, c
}

// vSecondHello builds the client's second ClientHello in the given variant and
// returns the record, and what a conforming server does with it when armed:
// the replacement message (ok) or the error class and alert.
func vSecondHello(st vC06State, variant int) (rec []byte, wantMsg []byte, class error, desc byte) {
	outer2 := vHello{version: 0x0303, random: st.first.outer.random, sid: st.first.outer.sid, suites: []byte{0x13, 0x01}, comp: []byte{0}}
	outer2.exts = []vExt{vSNI(st.name), vVersions(0x0304), {51, vBytes(2)}, {0xfe0d, nil}}
	if variant == 9 { // authentic payload, but the outer SNI is no longer the public name
		other := append([]byte{}, st.name...)
		d := vByte()
		vAssume(d != 0)
		other[vInt(0, len(other)-1)] ^= d
		outer2.exts[0] = vSNI(other)
	}
	compressed := false
	inner2 := st.inner
	inner2.exts = []vExt{vSNI(st.innerSN), vECHInner(), vALPN([][]byte{st.proto}), vVersions(0x0304), {51, vBytes(1)}}
	switch variant {
	case 7: // inner server name changed
		sn := vBytes(2)
		vAssume(sn[0] != st.innerSN[0] || sn[1] != st.innerSN[1])
		inner2.exts[0] = vSNI(sn)
	case 8: // inner ALPN changed
		pr := vBytes(2)
		vAssume(pr[0] != st.proto[0] || pr[1] != st.proto[1])
		inner2.exts[2] = vALPN([][]byte{pr})
	}
	encoded2pad := []byte{}
	switch variant {
	case 0: // the usual shape: key_share compressed through ech_outer_extensions; its value changed since the first hello
		if vBool() {
			inner2.exts[4] = vOuterExtensions([]uint16{51})
			compressed = true
		}
	case 10: // the outer hello no longer offers TLS 1.3
		outer2.exts[1] = vVersions(0x0303)
	case 11: // ech_outer_extensions in the outer hello
		outer2.exts = append(outer2.exts, vOuterExtensions([]uint16{51}))
	case 12: // the inner hello lost its inner-type ECH extension
		inner2.exts = []vExt{inner2.exts[0], inner2.exts[2], inner2.exts[3], inner2.exts[4]}
	case 13: // non-zero padding
		encoded2pad = vBytes(2)
		vAssume(encoded2pad[0] != 0 || encoded2pad[1] != 0)
	case 14: // a repeated outer-extension reference
		inner2.exts[4] = vOuterExtensions([]uint16{51, 51})
	case 15: // the inner ALPN extension is gone
		inner2.exts = []vExt{inner2.exts[0], inner2.exts[1], inner2.exts[3], inner2.exts[4]}
	case 16: // the inner server name is gone
		inner2.exts = inner2.exts[1:]
	case 17: // the inner ALPN list grew (the first hello's protocol is still offered)
		inner2.exts[2] = vALPN([][]byte{st.proto, []byte("zz")})
	case 18:
		inner2.exts[2] = vALPN([][]byte{[]byte("zz"), st.proto})
	}
	enc2 := []byte{}
	h := st.first.sender
	if variant == 5 { // sealed under a fresh context (sequence number 0 of another context)
		info := vCat([]byte("tls ech\x00"), st.k.config)
		_, h = vHpkeSetupSender(st.k.priv, st.k.pub, 1, 1, info)
	}
	s2 := vSealWith(h, enc2, st.k.id, 1, 1, outer2, 3, vCat(vEncodeInner(inner2, 0), encoded2pad))
	o := s2.outer
	exts := make([]vExt, len(o.exts))
	copy(exts, o.exts)
	o.exts = exts
	want := inner2
	want.sid = outer2.sid
	if compressed {
		wexts := append([]vExt{}, inner2.exts...)
		wexts[4] = outer2.exts[2] // the second outer hello's key_share, not the first one's
		want.exts = wexts
	}
	wantMsg = vHandshake(want.body())
	switch variant {
	case 0:
	case 1: // no ECH extension
		o.exts = o.exts[:3]
		wantMsg, class, desc = nil, ErrMissingExtension, 109
	case 2: // other config id
		id := vByte()
		vAssume(id != st.k.id)
		o.exts[3] = vECHOuter(1, 1, id, enc2, s2.payload)
		wantMsg, class, desc = nil, ErrIllegalParameter, 47
	case 3: // other cipher suite
		o.exts[3] = vECHOuter(1, 3, st.k.id, enc2, s2.payload)
		wantMsg, class, desc = nil, ErrIllegalParameter, 47
	case 4: // non-empty enc
		o.exts[3] = vECHOuter(1, 1, st.k.id, vBytes(vInt(1, 2)), s2.payload)
		wantMsg, class, desc = nil, ErrIllegalParameter, 47
	case 5:
		wantMsg, class, desc = nil, ErrDecryptError, 51
	case 6: // payload modified
		pl := append([]byte{}, s2.payload...)
		d := vByte()
		vAssume(d != 0)
		pl[vInt(0, len(pl)-1)] ^= d
		o.exts[3] = vECHOuter(1, 1, st.k.id, enc2, pl)
		wantMsg, class, desc = nil, ErrDecryptError, 51
	case 7, 8, 9, 10, 11, 12, 13, 14, 15, 16, 17, 18:
		wantMsg, class, desc = nil, ErrIllegalParameter, 47
	}
	return o.record(), wantMsg, class, desc
}

// verifC06History: after an accepted first hello, a symbolic history of client
// records (second hello in 15 variants, change_cipher_spec, application data,
// other handshake) and backend records (ServerHello, HelloRetryRequest,
// change_cipher_spec, application data, other handshake), checked step by step
// against a reference monitor of the statement.
func verifC06History() {
	steps := 3 // (the thorough tier widens the alphabets - split points, near-HRR positions - not the history)
	st, tr, c := vC06Setup()
	vReach("setup")
	hrrSeen := 0      // HelloRetryRequests written while the write side was inspected
	writeLive := true // backend direction still inspected
	readLive := true  // client direction still inspected
	hellos := 0
	sharedSeals := 0 // hellos the client sealed with the first hello's HPKE context
	for i := 0; i < steps; i++ {
		ev := vInt(0, 9)
		if ev <= 4 || ev == 9 { // ---- backend writes one record (or two in one call)
			var rec []byte
			switch ev {
			case 0:
				// an ordinary ServerHello: any random other than the HelloRetryRequest
				// value, including ones that differ from it in a single byte
				r := vBytes(32)
				if vBool() {
					r = append([]byte{}, vHRRRandom...)
					d := vByte()
					vAssume(d != 0)
					r[[]int{0, 31, 13, 7, 24}[vInt(0, 1)]] ^= d // first, last, inner positions
				} else {
					vAssume(r[0] != 0xCF)
				}
				rec = vServerHello(r, st.first.outer.sid)
			case 1:
				rec = vServerHello(vHRRRandom, st.first.outer.sid)
				if writeLive {
					hrrSeen++
					writeLive = false
				}
			case 2:
				// change_cipher_spec, an alert or a record of an unknown type: none of them ends or re-arms inspection
				rec = vRecord([]byte{20, 21, 24}[vInt(0, 2)], 0x0303, []byte{1})
			case 3:
				rec = vRecord(23, 0x0303, vBytes(2*vInt(0, 1))) // application data, possibly with an empty fragment
				writeLive = false
			case 4:
				rec = vRecord(22, 0x0303, vCat([]byte{8}, vU24(2), vBytes(2)))
			case 9: // HelloRetryRequest and change_cipher_spec flushed in one Write, as crypto/tls does
				rec = vCat(vServerHello(vHRRRandom, st.first.outer.sid), vRecord(20, 0x0303, []byte{1}))
				if vBool() {
					rec = vCat(vRecord(20, 0x0303, []byte{1}), vServerHello(vHRRRandom, st.first.outer.sid)) // ... or behind it
				}
				if writeLive {
					hrrSeen++
					writeLive = false
				}
			}
			before := len(tr.out)
			var n int
			var err error
			if sp := []int{0, 5, 1, 6}[vInt(0, 1)]; sp > 0 && sp < len(rec) {
				// the backend's record arrives split over two Write calls
				n1, err1 := c.Write(rec[:sp])
				vAssert(err1 == nil && n1 == sp, "first part of a split backend record accepted")
				n, err = c.Write(rec[sp:])
				n += n1
			} else {
				n, err = c.Write(rec)
			}
			vAssert(err == nil && n == len(rec), "backend record accepted")
			vAssert(len(tr.out) == before+len(rec) && vBytesEq(tr.out[before:], rec), "backend record forwarded unchanged")
			continue
		}
		// ---- client sends one record
		var rec, wantMsg []byte
		var class error
		var desc byte
		isHello := false
		switch ev {
		case 5:
			if hellos >= 2 {
				continue
			}
			hellos++
			isHello = true
			variant := 0 // a further hello (third of the connection) is an honest one: it must still not be processed
			if hellos == 1 {
				// quick tier: one variant per outcome class (the abort discipline of all 14 ill-formed variants is verifC04RetryRules' job)
				variant = []int{0, 1, 5, 9, 10, 12, 2, 3, 4, 6, 7, 8, 11, 13, 14, 15, 16, 17, 18}[vInt(0, 5+7*vTier())]
			}
			rec, wantMsg, class, desc = vSecondHello(st, variant)
			if sharedSeals > 0 {
				// the client already sealed an earlier hello with this context: this one carries
				// sequence number 2, which a server that processes it cannot open
				wantMsg, class, desc = nil, ErrDecryptError, 51
			}
			if variant != 5 {
				sharedSeals++
			}
		case 6:
			rec = vRecord([]byte{20, 21, 24}[vInt(0, 2)], 0x0303, []byte{1})
		case 7:
			rec = vRecord(23, 0x0303, vBytes(2))
		case 8:
			rec = vRecord(22, 0x0303, vCat([]byte{11}, vU24(1), vBytes(1)))
		}
		tr.in = append(tr.in, rec...)
		armed := readLive && hrrSeen == 1
		opensBefore := vHpkeOpens()
		buf := make([]byte, 600)
		rn, err := c.Read(buf) // one record per Read while inspected; the transport holds exactly one record
		got := buf[:rn]
		if isHello && armed {
			vReach("retry-processed")
			readLive = false
			if class == nil {
				vAssert(err == nil, "well-formed retried hello accepted")
				vAssert(len(got) == 5+len(wantMsg) && vBytesEq(got[5:], wantMsg), "retried hello replaced by its reconstructed inner hello")
				vReach("retry-ok")
			} else {
				vAssert(err != nil && errors.Is(err, class), "ill-formed retried hello: error class")
				vAssert(len(got) == 0, "ill-formed retried hello: nothing forwarded")
				al := tr.out[len(tr.out)-7:]
				vAssert(len(tr.out) >= 7 && al[0] == 0x15 && al[5] == 2 && al[6] == desc, "ill-formed retried hello: alert")
				vAssert(tr.closed, "ill-formed retried hello: transport closed")
				vReach("retry-abort")
				return
			}
		} else {
			vAssert(err == nil, "client record forwarded")
			vAssert(len(got) == len(rec) && vBytesEq(got, rec), "client record forwarded unchanged")
			if isHello && vSymbolic() {
				vAssert(vHpkeOpens() == opensBefore, "a hello without a preceding HelloRetryRequest is never decrypted")
			}
			if ev == 7 {
				readLive = false
			}
		}
	}
	vReach("done")
}

// verifC06Concurrent: the order production sees - the relay's Read is already
// blocked in the transport when the backend's HelloRetryRequest is written;
// the retried hello that arrives afterwards is still processed.  Every
// schedule of the two goroutines at synchronisation points is explored.
func verifC06Concurrent() {
	tr := newVBlockingTransport()
	st, c := vC06SetupOn(tr, &tr.vTransport)
	vSchedForks(true)
	type res struct {
		b   []byte
		err error
	}
	done := make(chan res, 1)
	go func() {
		buf := make([]byte, 600)
		n, err := c.Read(buf)
		done <- res{append([]byte{}, buf[:n]...), err}
	}()
	if vBool() {
		vYield() // the reader usually blocks first
	}
	hrr := vServerHello(vHRRRandom, st.first.outer.sid)
	n, err := c.Write(hrr)
	vAssert(err == nil && n == len(hrr), "HelloRetryRequest forwarded")
	rec, wantMsg, _, _ := vSecondHello(st, 0)
	tr.deliver(rec)
	r := <-done
	vAssert(r.err == nil, "retried hello accepted by a Read that was already blocked when the HelloRetryRequest passed")
	vAssert(len(r.b) == 5+len(wantMsg) && vBytesEq(r.b[5:], wantMsg), "retried hello replaced by its reconstructed inner hello (reader blocked first)")
	vReach("concurrent-retry")
}

// verifC06SecondHRR: at most one retry is processed: after a HelloRetryRequest
// and a well-formed retried hello, a second HelloRetryRequest-shaped record
// from the backend does not re-arm anything - a further honest hello (sealed at
// the next sequence number) is forwarded verbatim and not decrypted.
func verifC06SecondHRR() {
	st, tr, c := vC06Setup()
	hrr := vServerHello(vHRRRandom, st.first.outer.sid)
	n, err := c.Write(hrr)
	vAssert(err == nil && n == len(hrr), "first HelloRetryRequest forwarded")
	rec2, want2, _, _ := vSecondHello(st, 0)
	tr.in = append(tr.in, rec2...)
	buf := make([]byte, 700)
	rn, rerr := c.Read(buf)
	vAssert(rerr == nil && rn == 5+len(want2) && vBytesEq(buf[5:rn], want2), "the retried hello is processed")
	// the backend (or an attacker in its place) sends another HelloRetryRequest, alone or behind another record
	before := len(tr.out)
	second := hrr
	if vBool() {
		second = vCat(vRecord(20, 0x0303, []byte{1}), hrr)
	}
	n, err = c.Write(second)
	vAssert(err == nil && n == len(second) && vBytesEq(tr.out[before:], second), "a second HelloRetryRequest is relayed like any record")
	opens := vHpkeOpens()
	rec3, _, _, _ := vSecondHello(st, 0) // honest, sealed with the next sequence number
	tr.in = append(tr.in, rec3...)
	rn, rerr = c.Read(buf)
	vAssert(rerr == nil && rn == len(rec3) && vBytesEq(buf[:rn], rec3), "a hello after a second HelloRetryRequest is forwarded verbatim")
	if vSymbolic() {
		vAssert(vHpkeOpens() == opens, "at most one retry is processed: nothing is decrypted any more")
	}
	vReach("second-hrr")
}
