package ech

import (
	"context"
	"errors"
)

// C04: illegal or malformed Encrypted Client Hellos are aborted with the mandated alert.

// vCheckAbort asserts the observable consequences of an abort: error class,
// nothing readable, exactly one fatal alert record with the matching
// description on the transport, transport closed.
func vCheckAbort(tr *vTransport, c *Conn, err error, class error, desc byte, what string) {
	vAssert(err != nil, what+": aborted")
	vAssert(errors.Is(err, class), what+": error class")
	vAssert(c == nil || !c.ECHAccepted(), what+": not accepted")
	vAssert(len(tr.out) == 7, what+": exactly one alert record written to the client")
	if len(tr.out) == 7 {
		vAssert(tr.out[0] == 0x15 && tr.out[3] == 0 && tr.out[4] == 2 && tr.out[5] == 2, what+": fatal alert framing")
		vAssert(tr.out[1] == 3 && tr.out[2] >= 1 && tr.out[2] <= 4, what+": the alert record carries a TLS record version")
		vAssert(tr.out[6] == desc, what+": alert description")
	}
	vAssert(tr.closed, what+": end of stream after the alert")
}

type vC04Case struct {
	k      vKeyCfg
	outer  vHello
	inner  vHello
	refs   []uint16
	pad    []byte
	class  error
	desc   byte
	what   string
	noSeal bool
	rawRec []byte
}

// verifC04Rules: one rule violation applied to an otherwise valid hello.
func verifC04Rules() {
	name := []byte("pub.example")
	k := vMakeKey(0, vByte(), [][2]uint16{{1, 1}}, name)
	free := []vExt{{51, vBytes(1)}, {10, vBytes(1)}, {13, vBytes(1)}}
	outer := vHello{version: 0x0303, random: vBytes(32), sid: vBytes(1), suites: []byte{0x13, 0x01}, comp: []byte{0}}
	outer.exts = []vExt{vSNI(name), vVersions(0x0304), free[0], free[1], free[2], {0xfe0d, nil}}
	echIdx := 5
	innerExts := []vExt{vSNI(vBytes(2)), vECHInner(), vVersions(0x0304)}
	inner := vHello{version: 0x0303, random: vBytes(32), suites: []byte{0x13, 0x02}, comp: []byte{0}, exts: innerExts}
	pad := []byte{0, 0, 0}
	class, desc := ErrIllegalParameter, byte(47)
	what := ""
	sealIt := true
	keyless := false
	moveECH := false // reference-list rules: the ECH extension need not be the last outer extension
	var rec []byte

	switch vInt(1, 14) {
	case 1:
		what = "R1 ech_outer_extensions in the outer hello"
		keyless = true
		outer.exts = append([]vExt{vOuterExtensions([]uint16{51})}, outer.exts...)
		echIdx++
	case 2:
		what = "R2 ECH type inner sent to a server with keys"
		outer.exts[echIdx] = vECHInner()
		sealIt = false
	case 3:
		what = "R3 unknown ECH type"
		keyless = true
		t := vByte()
		vAssume(t >= 2)
		outer.exts[echIdx] = vExt{0xfe0d, vCat([]byte{t}, vBytes(vInt(0, 2)))}
		sealIt = false
	case 4:
		what = "R4 authentic payload but outer SNI is not the public name"
		switch vInt(0, 3) {
		case 0: // one byte differs
			other := append([]byte{}, name...)
			d := vByte()
			vAssume(d != 0)
			other[vInt(0, len(other)-1)] ^= d
			outer.exts[0] = vSNI(other)
		case 1: // a trailing dot
			outer.exts[0] = vSNI(vCat(name, []byte(".")))
		case 2: // a proper prefix
			outer.exts[0] = vSNI(name[:len(name)-1])
		case 3: // no server name at all
			outer.exts = outer.exts[1:]
			echIdx--
		}
	case 5:
		what = "R5 inner hello lacks the inner-type ECH extension"
		if vBool() {
			inner.exts = []vExt{innerExts[0], innerExts[2]}
		} else { // it carries an outer-type ECH extension instead
			inner.exts = []vExt{innerExts[0], vECHOuter(1, 1, k.id, make([]byte, 32), vBytes(3)), innerExts[2]}
		}
	case 6:
		what = "R6 inner hello does not offer TLS 1.3"
		v, v2 := vUint16(), vUint16()
		vAssume(v < 0x0304 && v2 < 0x0304)
		if vBool() {
			inner.exts = []vExt{innerExts[0], innerExts[1], vVersions(v)}
		} else {
			inner.exts = []vExt{innerExts[0], innerExts[1], vVersions(v, v2)}
		}
	case 7:
		what = "R7 non-zero padding"
		pad = vBytes(3) // any padding that is not all zero (several non-zero bytes included)
		vAssume(pad[0] != 0 || pad[1] != 0 || pad[2] != 0)
	case 8:
		what = "R8a malformed outer-extension list (odd length, length beyond the data, empty data, bytes after the list, empty list)"
		class, desc = ErrDecodeError, 50
		shapes := [][]byte{{3, 0, 51, 0}, {4, 0, 51}, {}, {2, 0, 51, 0xAA}, {0}} // (the list holds 1..127 types: OuterExtensions<2..254>)
		inner.exts = append(inner.exts, vExt{0xfd00, shapes[vInt(0, 4)]})
	case 9:
		what = "R8b references out of order"
		lists := [][]uint16{{10, 51}, {51, 13, 10}, {10, 13, 51}, {13, 10}}
		inner.exts = append(inner.exts, vOuterExtensions(lists[vInt(0, 3)]))
		moveECH = vBool()
	case 10:
		what = "R8c repeated reference"
		lists := [][]uint16{{51, 51}, {51, 10, 10}, {51, 13, 51}, {10, 13, 13}}
		inner.exts = append(inner.exts, vOuterExtensions(lists[vInt(0, 3)]))
		moveECH = vBool()
	case 11:
		what = "R8d reference absent from the outer hello"
		t := vUint16()
		vAssume(t != 0 && t != 43 && t != 51 && t != 10 && t != 13 && t != 0xfe0d && t != 0xfd00)
		if vBool() {
			inner.exts = append(inner.exts, vOuterExtensions([]uint16{t}))
		} else { // after a reference to what may be the last outer extension
			inner.exts = append(inner.exts, vOuterExtensions([]uint16{13, t}))
		}
		moveECH = vBool()
	case 12:
		what = "R8e reference names an ECH extension type"
		t := uint16(0xfe0d)
		if vBool() {
			t = 0xfd00
		}
		inner.exts = append(inner.exts, vOuterExtensions([]uint16{[]uint16{51, 13}[vInt(0, 1)], t}))
		moveECH = vBool()
	case 13:
		what = "R8f two ech_outer_extensions markers"
		inner.exts = append(inner.exts, vOuterExtensions([]uint16{51}), vOuterExtensions([]uint16{10}))
	case 14:
		what = "R10 first record is not a handshake record / not a ClientHello"
		keyless = true
		class, desc = ErrUnexpectedMessage, 10
		sealIt = false
		body := vHandshake(outer.body())
		if vBool() {
			t := vByte()
			vAssume(t != 22)
			rec = vRecord(t, 0x0301, body)
		} else {
			t := vByte()
			vAssume(t != 1)
			body[0] = t
			rec = vRecord(22, 0x0301, body)
		}
	}
	if rec == nil {
		if !sealIt || outer.exts[0].typ == 0xfd00 {
			// rules on the outer hello alone do not depend on the versions it offers
			switch vInt(0, 2) {
			case 1:
				outer.exts[echIdx-4] = vVersions(0x0303)
			case 2:
				outer.exts = append(append([]vExt{}, outer.exts[:echIdx-4]...), outer.exts[echIdx-3:]...)
				echIdx--
			}
		}
		if sealIt && moveECH {
			// (seed C04j) the outer hello ends with extension 13, the ECH extension sits before
			// it: a faulty reference that follows a reference to the last outer extension
			outer.exts[echIdx-1], outer.exts[echIdx] = outer.exts[echIdx], outer.exts[echIdx-1]
			echIdx--
		}
		if sealIt {
			s := vSeal(k, 1, 1, outer, echIdx, vCat(vEncodeInner(inner, 0), pad))
			rec = s.outer.record()
		} else {
			rec = outer.record()
		}
	}
	tr := newVTransport(rec)
	opts := []Option{WithKeys([]Key{k.key()})}
	if keyless && vBool() {
		opts = nil // R1, R3 and R10 do not depend on the server holding keys
	}
	c, err := NewConn(context.Background(), tr, opts...)
	vReach("ran")
	vCheckAbort(tr, c, err, class, desc, what)
	if c != nil {
		buf := make([]byte, 16)
		n, _ := c.Read(buf)
		vAssert(n == 0, what+": nothing is forwarded to a backend")
	}
}

// verifC04RetryRules: the same abort discipline for a retried hello (after an
// accepted first hello and a HelloRetryRequest): every ill-formed variant of the
// second hello makes Read fail with the matching class, sends the alert, closes
// the transport and forwards nothing.
func verifC04RetryRules() {
	st, tr, c := vC06Setup()
	hrr := vServerHello(vHRRRandom, st.first.outer.sid)
	// the backend's Write may end in the middle of its next record (the head of a change_cipher_spec record)
	ccs := vRecord(20, 0x0303, []byte{1})
	part := ccs[:vInt(0, 5)]
	n, err := c.Write(vCat(hrr, part))
	vAssert(err == nil && n == len(hrr)+len(part), "HelloRetryRequest forwarded")
	variant := vInt(1, 18)
	rec, _, class, desc := vSecondHello(st, variant)
	before := len(tr.out)
	tr.in = append(tr.in, rec...)
	buf := make([]byte, 600)
	rn, rerr := c.Read(buf)
	vReach("retry-ran")
	vAssert(rn == 0, "ill-formed retried hello: nothing forwarded")
	vAssert(rerr != nil && errors.Is(rerr, class), "ill-formed retried hello: error class")
	vAssert(len(tr.out) == before+7, "ill-formed retried hello: exactly one alert record")
	if len(tr.out) == before+7 {
		al := tr.out[before:]
		vAssert(al[0] == 0x15 && al[3] == 0 && al[4] == 2 && al[5] == 2 && al[6] == desc, "ill-formed retried hello: alert description")
	}
	vAssert(tr.closed, "ill-formed retried hello: end of stream after the alert")
	rn2, rerr2 := c.Read(buf)
	vAssert(rn2 == 0 && rerr2 != nil, "after the abort nothing is readable")
}

// verifC04AlertConsistency: whatever is wrong with a hello (pinned fixed part, raw
// symbolic extension block, with keys configured), whenever NewConn refuses it the
// returned error class and the alert written to the client agree, exactly one
// alert record is written, the transport is closed and nothing is readable.
// This covers truncations and length corruptions of every structure the parser
// looks into (SNI, ALPN, supported_versions, ECH, the extension framing).
func verifC04AlertConsistency() {
	maxE := 12 + 4*vTier()
	E := vInt(0, maxE)
	ext := vBytes(E)
	hello := vCat([]byte{0x03, 0x03}, vBytes(32), []byte{0x00, 0x00, 0x02, 0x13, 0x01, 0x01, 0x00}, vU16(E), ext)
	msg := vCat([]byte{0x01}, vU24(len(hello)), hello)
	rec := vCat([]byte{0x16, 0x03, 0x01}, vU16(len(msg)), msg)
	tr := newVTransport(rec)
	c, err := NewConn(context.Background(), tr, WithKeys(vC08Key()))
	if err == nil {
		vAssert(len(tr.out) == 0 && !tr.closed, "an accepted or passed-through hello writes nothing to the client")
		vReach("ok")
		return
	}
	vReach("refused")
	var desc byte
	switch {
	case errors.Is(err, ErrUnexpectedMessage):
		desc = 10
	case errors.Is(err, ErrIllegalParameter):
		desc = 47
	case errors.Is(err, ErrDecodeError):
		desc = 50
	case errors.Is(err, ErrDecryptError):
		desc = 51
	case errors.Is(err, ErrMissingExtension):
		desc = 109
	default:
		vFail("the error returned for a refused hello belongs to one of the documented classes")
	}
	vAssert(len(tr.out) == 7 && tr.out[0] == 0x15 && tr.out[3] == 0 && tr.out[4] == 2 && tr.out[5] == 2, "exactly one fatal alert record")
	vAssert(len(tr.out) == 7 && tr.out[6] == desc, "the alert matches the returned error class")
	vAssert(tr.closed, "end of stream after the alert")
	if c != nil {
		buf := make([]byte, 8)
		n, _ := c.Read(buf)
		vAssert(n == 0, "nothing is forwarded")
	}
}
