package ech

import (
	"context"
	"errors"
)

// C09: ECH acceptance depends only on holding the right key, not on the other keys.
//
// A key list of 1..3 (thorough: 4) valid keys with symbolic one-byte config ids
// (so collisions are chosen by the solver) and symbolic suite subsets; the target
// key sits at a symbolic position or is absent.  The hello is sealed to the target.
func verifC09KeySets() {
	maxKeys := 3
	if vTier() > 0 {
		maxKeys = 4
	}
	name := []byte("pub.example")
	all := [][2]uint16{{1, 1}, {1, 3}}
	target := vMakeKey(0, vByte(), all, name)
	suite := all[vInt(0, 1)]
	outer := vHello{version: 0x0303, random: vBytes(32), sid: vBytes(1), suites: []byte{0x13, 0x01}, comp: []byte{0}}
	// the outer server name is the target config's public name - or another key's public name,
	// which must not make the hello acceptable
	wrongSNI := vBool()
	sni := name
	if wrongSNI {
		sni = []byte("other.example")
	}
	outer.exts = []vExt{vSNI(sni), vVersions(0x0304), {0xfe0d, nil}}
	innerName := vBytes(2)
	inner := vHello{version: 0x0303, random: vBytes(32), suites: []byte{0x13, 0x02}, comp: []byte{0},
		exts: []vExt{vSNI(innerName), vECHInner(), vVersions(0x0304)}}
	s := vSeal(target, suite[0], suite[1], outer, 2, vEncodeInner(inner, 0))

	n := vInt(1, maxKeys)
	pos := vInt(-1, n-1) // -1: the server does not hold the target key
	var keys []Key
	for i := 0; i < n; i++ {
		if i == pos {
			keys = append(keys, target.key())
			continue
		}
		// another valid key: its own key pair, symbolic id (may collide), one or both suites
		var suites [][2]uint16
		switch vInt(0, 2) {
		case 0:
			suites = all
		case 1:
			suites = all[:1]
		default:
			suites = all[1:]
		}
		if vBool() {
			// ... or the target's own key pair published under another config (other public name):
			// the info string differs, so this key must neither open the payload nor get in the way
			keys = append(keys, vMakeKey(0, vByte(), suites, []byte("other.example")).key())
			continue
		}
		keys = append(keys, vMakeKey(i+1, vByte(), suites, name).key())
	}
	// the keys may come through one WithKeys option or be spread over two
	opts := []Option{WithKeys(keys)}
	if cut := vInt(0, n); cut > 0 && cut < n {
		opts = []Option{WithKeys(keys[:cut]), WithKeys(keys[cut:])}
	}
	c, err := NewConn(context.Background(), newVTransport(s.outer.record()), opts...)
	vReach("ran")
	if pos >= 0 && wrongSNI {
		vAssert(err != nil && errors.Is(err, ErrIllegalParameter), "an authentic payload under an outer name that is not its config's public name is refused, whatever other keys (and their public names) are configured")
		vReach("wrong-sni")
		return
	}
	if pos >= 0 {
		vAssert(err == nil, "holding the target key: no error whatever the other keys are")
		vAssert(c.ECHAccepted(), "holding the target key: accepted whatever the other keys are")
		want := inner
		want.sid = outer.sid
		wantMsg := vHandshake(want.body())
		got, _ := vReadAll(c, 300, 5+len(wantMsg))
		vAssert(len(got) == 5+len(wantMsg) && vBytesEq(got[5:], wantMsg), "reconstructed inner hello unchanged by other keys")
		vReach("accepted")
	} else {
		vAssert(err == nil, "not holding the key: pass-through, no error")
		vAssert(!c.ECHAccepted(), "not holding the key: never accepted")
		rec := s.outer.record()
		got, _ := vReadAll(c, 300, len(rec))
		vAssert(len(got) == len(rec) && vBytesEq(got[5:], rec[5:]), "outer hello forwarded unchanged")
		vReach("passthrough")
	}
}

// verifC09Retry: the retried hello of an accepted connection is handled with the
// key that opened the first hello, whatever other keys (same config id, other
// public name, before or after it) are configured.
func verifC09Retry() {
	name := []byte("pub.example")
	all := [][2]uint16{{1, 1}}
	id := vByte()
	target := vMakeKey(0, id, all, name)
	otherID := vByte() // may collide
	other := vMakeKey(1, otherID, all, []byte("other.example"))
	var keys []Key
	switch vInt(0, 2) {
	case 0:
		keys = []Key{target.key()}
	case 1:
		keys = []Key{other.key(), target.key()}
	case 2:
		keys = []Key{target.key(), other.key()}
	}
	outer := vHello{version: 0x0303, random: vBytes(32), sid: vBytes(1), suites: []byte{0x13, 0x01}, comp: []byte{0}}
	outer.exts = []vExt{vSNI(name), vVersions(0x0304), {0xfe0d, nil}}
	sn := vBytes(2)
	inner := vHello{version: 0x0303, random: vBytes(32), suites: []byte{0x13, 0x02}, comp: []byte{0},
		exts: []vExt{vSNI(sn), vECHInner(), vVersions(0x0304)}}
	s1 := vSeal(target, 1, 1, outer, 2, vEncodeInner(inner, 0))
	tr := newVTransport(s1.outer.record())
	c, err := NewConn(context.Background(), tr, WithKeys(keys))
	vAssert(err == nil && c.ECHAccepted(), "first hello accepted whatever the other keys are")
	buf := make([]byte, 600)
	_, _ = c.Read(buf)
	hrr := vServerHello(vHRRRandom, outer.sid)
	n, err := c.Write(hrr)
	vAssert(err == nil && n == len(hrr), "HelloRetryRequest forwarded")
	outer2 := outer
	outer2.exts = []vExt{vSNI(name), vVersions(0x0304), {51, vBytes(1)}, {0xfe0d, nil}}
	inner2 := inner
	inner2.exts = []vExt{vSNI(sn), vECHInner(), vVersions(0x0304), {51, vBytes(1)}}
	s2 := vSealWith(s1.sender, []byte{}, id, 1, 1, outer2, 3, vEncodeInner(inner2, 0))
	tr.in = append(tr.in, s2.outer.record()...)
	rn, err := c.Read(buf)
	vAssert(err == nil, "retried hello accepted whatever the other keys are")
	want := inner2
	want.sid = outer2.sid
	wantMsg := vHandshake(want.body())
	vAssert(rn == 5+len(wantMsg) && vBytesEq(buf[5:rn], wantMsg), "retried hello replaced by its inner hello")
	vReach("retried")
}

// verifC09ManyKeys: five valid keys that all share the config id and the cipher
// suite (a server rotating keys under one id); the target sits at any position,
// the last included: the hello is accepted however many candidates come first.
func verifC09ManyKeys() {
	name := []byte("pub.example")
	all := [][2]uint16{{1, 1}}
	id := vByte()
	pos := vInt(0, 4)
	var keys []Key
	var target vKeyCfg
	for i := 0; i < 5; i++ {
		k := vMakeKey(i, id, all, name)
		if i == pos {
			target = k
		}
		keys = append(keys, k.key())
	}
	outer := vHello{version: 0x0303, random: vBytes(32), sid: vBytes(1), suites: []byte{0x13, 0x01}, comp: []byte{0}}
	outer.exts = []vExt{vSNI(name), vVersions(0x0304), {0xfe0d, nil}}
	inner := vHello{version: 0x0303, random: vBytes(32), suites: []byte{0x13, 0x02}, comp: []byte{0},
		exts: []vExt{vSNI(vBytes(2)), vECHInner(), vVersions(0x0304)}}
	s := vSeal(target, 1, 1, outer, 2, vEncodeInner(inner, 0))
	c, err := NewConn(context.Background(), newVTransport(s.outer.record()), WithKeys(keys))
	vAssert(err == nil && c.ECHAccepted(), "the hello is accepted however many keys with the same config id come before the right one")
	vReach("many-keys")
}
