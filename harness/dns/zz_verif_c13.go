package dns

import "net"

// C13: the DNS codec round-trips and agrees with an independent RFC 1035/9460 codec.

func vEqBytes(a, b []byte) bool {
	if len(a) != len(b) {
		return false
	}
	ok := true
	for i := range a {
		if a[i] != b[i] {
			ok = false
		}
	}
	return ok
}

// vName builds a name of 0..maxLabels labels of 1..2 symbolic bytes other than '.'.
func vName(maxLabels int) string {
	n := vInt(0, maxLabels)
	var s []byte
	for i := 0; i < n; i++ {
		if i > 0 {
			s = append(s, '.')
		}
		l := vBytes(vInt(1, 2))
		for _, c := range l {
			vAssume(c != '.')
		}
		s = append(s, l...)
	}
	return string(s)
}

func vIPs(n, size int) []net.IP {
	var out []net.IP
	for i := 0; i < n; i++ {
		out = append(out, net.IP(vBytes(size)))
	}
	return out
}

func vRR() RR {
	rr := RR{Name: vName(1), Class: vUint16(), TTL: vUint32()}
	switch vInt(0, 4) {
	case 0:
		rr.Type, rr.Data = 1, net.IP(vBytes(4))
	case 1:
		rr.Type, rr.Data = 28, net.IP(vBytes(16))
	case 2:
		rr.Type = []uint16{2, 5, 12}[vInt(0, 2)]
		rr.Data = vName(2)
	case 3:
		rr.Type = 41
		opts := []Option{}
		for i, n := 0, vInt(0, 2); i < n; i++ {
			opts = append(opts, Option{Code: vUint16(), Data: vBytes(i)})
		}
		rr.Data = opts
	case 4:
		rr.Type = 65
		h := HTTPS{Priority: vUint16(), Target: vName(1), NoDefaultALPN: vBool(), Port: vUint16()}
		for i, n := 0, 2*vInt(0, 1); i < n; i++ {
			p := vBytes(1 + i)
			h.ALPN = append(h.ALPN, string(p))
		}
		if vBool() {
			h.IPv4Hint = vIPs(1, 4)
			h.IPv6Hint = vIPs(1, 16)
		}
		if vBool() {
			h.ECH = vBytes(3)
		}
		rr.Data = h
	}
	return rr
}

func vEqIPs(a, b []net.IP) bool {
	if len(a) != len(b) {
		return false
	}
	for i := range a {
		if !vEqBytes(a[i], b[i]) {
			return false
		}
	}
	return true
}

func vEqRR(a, b RR) bool {
	if a.Name != b.Name || a.Type != b.Type || a.Class != b.Class || a.TTL != b.TTL {
		return false
	}
	switch x := a.Data.(type) {
	case net.IP:
		y, ok := b.Data.(net.IP)
		return ok && vEqBytes(x, y)
	case string:
		y, ok := b.Data.(string)
		return ok && x == y
	case []Option:
		y, ok := b.Data.([]Option)
		if !ok || len(x) != len(y) {
			return false
		}
		for i := range x {
			if x[i].Code != y[i].Code || !vEqBytes(x[i].Data, y[i].Data) {
				return false
			}
		}
		return true
	case HTTPS:
		y, ok := b.Data.(HTTPS)
		if !ok || x.Priority != y.Priority || x.Target != y.Target || x.NoDefaultALPN != y.NoDefaultALPN || x.Port != y.Port || len(x.ALPN) != len(y.ALPN) {
			return false
		}
		for i := range x.ALPN {
			if x.ALPN[i] != y.ALPN[i] {
				return false
			}
		}
		return vEqIPs(x.IPv4Hint, y.IPv4Hint) && vEqIPs(x.IPv6Hint, y.IPv6Hint) && vEqBytes(x.ECH, y.ECH)
	}
	return false
}

// verifC13RoundTrip: DecodeMessage(m.Bytes()) == m for symbolic messages.
func verifC13RoundTrip() {
	m := Message{ID: vUint16(), QR: vByte() & 1, OpCode: vByte() & 0xf, AA: vByte() & 1, TC: vByte() & 1, RD: vByte() & 1, RA: vByte() & 1, RCode: vByte() & 0xf}
	if vBool() {
		m.Question = []Question{{Name: vName(2), Type: vUint16(), Class: vUint16()}}
	}
	sec := vInt(0, 2)
	for i, n := 0, vInt(0, 1+vTier()); i < n; i++ {
		rr := RR{Name: vName(1), Type: 1, Class: 1, TTL: vUint32(), Data: net.IP(vBytes(4))} // (thorough tier: a plain second record)
		if i == 0 {
			rr = vRR()
		}
		switch sec {
		case 0:
			m.Answer = append(m.Answer, rr)
		case 1:
			m.Authority = append(m.Authority, rr)
		default:
			m.Additional = append(m.Additional, rr)
		}
	}
	b := m.Bytes()
	d, err := DecodeMessage(b)
	vAssert(err == nil, "encoded message decodes")
	vAssert(d.ID == m.ID && d.QR == m.QR && d.OpCode == m.OpCode && d.AA == m.AA && d.TC == m.TC && d.RD == m.RD && d.RA == m.RA && d.RCode == m.RCode, "header round-trips")
	vAssert(len(d.Question) == len(m.Question) && len(d.Answer) == len(m.Answer) && len(d.Authority) == len(m.Authority) && len(d.Additional) == len(m.Additional), "section counts round-trip")
	for i := range m.Question {
		vAssert(d.Question[i] == m.Question[i], "question round-trips")
	}
	for i := range m.Answer {
		vAssert(vEqRR(d.Answer[i], m.Answer[i]), "answer RR round-trips")
	}
	for i := range m.Authority {
		vAssert(vEqRR(d.Authority[i], m.Authority[i]), "authority RR round-trips")
	}
	for i := range m.Additional {
		vAssert(vEqRR(d.Additional[i], m.Additional[i]), "additional RR round-trips")
	}
	vReach("roundtrip")
}

// ---- reference encoder (RFC 1035 4.1, with optional name compression)

func vRefName(name string, ptr int) []byte {
	// ptr >= 0: emit a compression pointer to that offset instead of the whole name
	if ptr >= 0 {
		return []byte{0xc0 | byte(ptr>>8), byte(ptr)}
	}
	var out []byte
	start := 0
	for i := 0; i <= len(name); i++ {
		if i == len(name) || name[i] == '.' {
			if i > start {
				out = append(out, byte(i-start))
				out = append(out, name[start:i]...)
			}
			start = i + 1
		}
	}
	return append(out, 0)
}

// verifC13Compressed: a response built by the reference encoder, whose answer
// owner name and CNAME target are (symbolically) compressed against the
// question name, decodes to the same records.
func verifC13Compressed() {
	qname := vName(2)
	vAssume(len(qname) > 0)
	hdr := []byte{0x12, 0x34, 0x81, 0x80, 0, 1, 0, 2, 0, 0, 0, 0}
	q := append(vRefName(qname, -1), 0, 1, 0, 1)
	ownerPtr, targetPtr := -1, -1
	if vBool() {
		ownerPtr = 12
	}
	if vBool() {
		targetPtr = 12
	}
	ttl := vUint32()
	rd := vRefName(qname, targetPtr)
	cname := append(append(vRefName(qname, ownerPtr), 0, 5, 0, 1, byte(ttl>>24), byte(ttl>>16), byte(ttl>>8), byte(ttl), byte(len(rd)>>8), byte(len(rd))), rd...)
	ip := vBytes(4)
	a := append(append(vRefName(qname, ownerPtr), 0, 1, 0, 1, 0, 0, 0, 60, 0, 4), ip...)
	msg := append(append(append(hdr, q...), cname...), a...)
	d, err := DecodeMessage(msg)
	vAssert(err == nil, "reference-encoded response decodes")
	vAssert(len(d.Question) == 1 && d.Question[0].Name == qname && d.Question[0].Type == 1, "question")
	vAssert(len(d.Answer) == 2, "two answers")
	vAssert(vEqRR(d.Answer[0], RR{Name: qname, Type: 5, Class: 1, TTL: ttl, Data: qname}), "CNAME with compressed names")
	vAssert(vEqRR(d.Answer[1], RR{Name: qname, Type: 1, Class: 1, TTL: 60, Data: net.IP(ip)}), "A with compressed owner")
	vReach("compressed")
}

// verifC13Padding: AddPadding yields a multiple of 128 bytes, exactly one
// padding option, and an unchanged question, for every name length 0..130 and
// OPT content (absent, empty, other option, stale padding option).
func verifC13Padding() {
	n := vInt(0, 130)
	var name []byte
	for i := 0; i < n; i++ {
		if i%64 == 63 {
			name = append(name, '.')
		} else {
			name = append(name, 'a')
		}
	}
	if len(name) > 0 && name[len(name)-1] == '.' {
		name[len(name)-1] = 'a'
		vAssume(n%64 != 0) // keep labels <= 63 bytes
	}
	qn := string(name)
	if len(name) > 0 && vBool() {
		qn += "." // the fully-qualified spelling of the same name
	}
	m := &Message{RD: 1, Question: []Question{{Name: qn, Type: 65, Class: 1}}}
	var keep []Option // the caller's own options: they must survive
	shape := vInt(0, 4)
	switch shape {
	case 1:
		m.Additional = []RR{{Type: 41, Class: 4096, Data: []Option{}}}
	case 2:
		keep = []Option{{Code: 5, Data: []byte{1, 2}}}
		m.Additional = []RR{{Type: 41, Class: 4096, Data: []Option{{Code: 5, Data: []byte{1, 2}}}}}
	case 3:
		keep = []Option{{Code: 5, Data: []byte{9}}}
		m.Additional = []RR{{Type: 41, Class: 4096, Data: []Option{{Code: 12, Data: make([]byte, vInt(0, 3))}, {Code: 5, Data: []byte{9}}, {Code: 12, Data: []byte{0}}}}} // two stale padding options
	case 4: // the OPT record is not the first additional record
		keep = []Option{{Code: 10, Data: []byte{7, 7}}}
		m.Additional = []RR{{Name: "x", Type: 1, Class: 1, TTL: 5, Data: net.IP{10, 0, 0, 1}}, {Type: 41, Class: 1232, Data: []Option{{Code: 10, Data: []byte{7, 7}}}}}
	}
	m.AddPadding()
	b := m.Bytes()
	vAssert(len(b)%128 == 0, "padded length is a multiple of 128")
	d, err := DecodeMessage(b)
	vAssert(err == nil && len(d.Question) == 1 && d.Question[0].Name == string(name) && d.Question[0].Type == 65, "padded query still decodes to the same question")
	pads := 0
	for _, rr := range d.Additional {
		if opts, ok := rr.Data.([]Option); ok {
			for _, o := range opts {
				if o.Code == 12 {
					pads++
				}
			}
		}
	}
	vAssert(pads == 1, "exactly one padding option")
	vAssert(d.Question[0].Class == 1, "question class unchanged")
	nOpt := 0
	for _, rr := range d.Additional {
		opts, ok := rr.Data.([]Option)
		if !ok {
			continue
		}
		nOpt++
		var others []Option
		for _, o := range opts {
			if o.Code != 12 {
				others = append(others, o)
			}
		}
		vAssert(len(others) == len(keep), "the caller's other EDNS options survive padding")
		for i := range keep {
			vAssert(i < len(others) && others[i].Code == keep[i].Code && vEqBytes(others[i].Data, keep[i].Data), "the caller's other EDNS options survive padding")
		}
		if shape == 4 {
			vAssert(rr.Class == 1232, "the OPT record's payload size is kept")
		}
	}
	vAssert(nOpt == 1, "exactly one OPT record")
	for _, rr := range d.Additional {
		opts, ok := rr.Data.([]Option)
		if !ok {
			continue
		}
		vAssert(rr.Name == "" && rr.Type == 41, "the OPT record is owned by the root name")
		if shape == 0 {
			vAssert(rr.TTL == 0 && rr.Class >= 512, "a synthesised OPT record: version 0, no flags, a usable payload size")
		}
		for _, o := range opts {
			if o.Code == 12 {
				vAssert(len(o.Data) <= 127, "no more padding than needed")
				for _, x := range o.Data {
					vAssert(x == 0, "padding bytes are zero (RFC 7830)")
				}
			}
		}
	}
	m.AddPadding()
	vAssert(vEqBytes(m.Bytes(), b), "padding an already padded message changes nothing")
	if shape == 4 {
		vAssert(len(d.Additional) == 2 && d.Additional[0].Type == 1, "other additional records are kept, in place")
	}
	vReach("padded")
}

// verifC13ResponseCode: extended RCODE = upper 8 bits from the OPT TTL, lower 4 from the header.
func verifC13ResponseCode() {
	rc := vByte()
	ttl := vUint32()
	m := Message{RCode: rc}
	want := uint16(rc & 0xf)
	if vBool() {
		m.Additional = []RR{{Type: 1, Data: net.IP{1, 2, 3, 4}}, {Type: 41, TTL: ttl, Data: []Option{}}}
		want |= uint16(ttl>>24) << 4
	}
	vAssert(m.ResponseCode() == want, "ResponseCode = (OPT.TTL>>24)<<4 | RCODE")
	vReach("rcode")
}

// ---- reference decoder for one uncompressed RR (RFC 1035 4.1.3) and for HTTPS
// RDATA (RFC 9460 2.2: SvcParamKeys in strictly increasing order).

type vRefParam struct {
	key uint16
	val []byte
}

// vRefReadName reads an uncompressed name at b[p:]; returns the dotted name and the next offset (-1 on error).
func vRefReadName(b []byte, p int) (string, int) {
	var out []byte
	for {
		if p >= len(b) {
			return "", -1
		}
		l := int(b[p])
		p++
		if l == 0 {
			return string(out), p
		}
		if l > 63 || p+l > len(b) {
			return "", -1
		}
		if len(out) > 0 {
			out = append(out, '.')
		}
		out = append(out, b[p:p+l]...)
		p += l
	}
}

// verifC13RefDecode: the bytes produced for an HTTPS record are parsed by an
// independent RFC 1035 / RFC 9460 reference reader: owner, type, class, TTL,
// RDLENGTH, priority, target, then SvcParams in strictly increasing key order
// whose values equal the record's fields.
func verifC13RefDecode() {
	h := HTTPS{Priority: vUint16(), Target: vName(1), NoDefaultALPN: vBool(), Port: vUint16()}
	if vBool() {
		h.ALPN = []string{string(vBytes(2)), string(vBytes(1))}
	}
	if vBool() {
		h.IPv4Hint = vIPs(1, 4)
	}
	if vBool() {
		h.IPv6Hint = vIPs(1, 16)
	}
	if vBool() {
		h.ECH = vBytes(3)
	}
	rr := RR{Name: vName(1), Type: 65, Class: 1, TTL: vUint32(), Data: h}
	b := rr.Bytes()
	name, p := vRefReadName(b, 0)
	vAssert(p > 0 && name == rr.Name, "owner name")
	vAssert(len(b) >= p+10, "fixed RR fields present")
	vAssert(int(b[p])<<8|int(b[p+1]) == 65 && int(b[p+2])<<8|int(b[p+3]) == 1, "type and class")
	vAssert(uint32(b[p+4])<<24|uint32(b[p+5])<<16|uint32(b[p+6])<<8|uint32(b[p+7]) == rr.TTL, "TTL")
	rdlen := int(b[p+8])<<8 | int(b[p+9])
	p += 10
	vAssert(rdlen == len(b)-p, "RDLENGTH covers exactly the rest")
	vAssert(len(b) >= p+2 && uint16(b[p])<<8|uint16(b[p+1]) == h.Priority, "SvcPriority")
	target, q := vRefReadName(b, p+2)
	vAssert(q > 0 && target == h.Target, "TargetName (uncompressed)")
	var params []vRefParam
	last := -1
	for q < len(b) {
		vAssert(len(b) >= q+4, "SvcParam header")
		key := int(b[q])<<8 | int(b[q+1])
		l := int(b[q+2])<<8 | int(b[q+3])
		q += 4
		vAssert(key > last, "SvcParamKeys appear in strictly increasing order")
		last = key
		vAssert(len(b) >= q+l, "SvcParam value within RDATA")
		params = append(params, vRefParam{uint16(key), b[q : q+l]})
		q += l
	}
	find := func(k uint16) ([]byte, bool) {
		for _, pr := range params {
			if pr.key == k {
				return pr.val, true
			}
		}
		return nil, false
	}
	v, ok := find(1)
	vAssert(ok == (len(h.ALPN) > 0), "alpn present iff set")
	if ok && len(h.ALPN) == 2 {
		vAssert(len(v) == 5 && v[0] == 2 && v[3] == 1 && string(v[1:3]) == h.ALPN[0] && string(v[4:5]) == h.ALPN[1], "alpn value")
	}
	v, ok = find(2)
	vAssert(ok == h.NoDefaultALPN && len(v) == 0, "no-default-alpn")
	v, ok = find(3)
	vAssert(ok == (h.Port > 0), "port present iff set")
	if ok {
		vAssert(len(v) == 2 && uint16(v[0])<<8|uint16(v[1]) == h.Port, "port value")
	}
	v, ok = find(4)
	vAssert(ok == (len(h.IPv4Hint) > 0) && (!ok || vEqBytes(v, h.IPv4Hint[0])), "ipv4hint")
	v, ok = find(5)
	vAssert(ok == (len(h.ECH) > 0) && (!ok || vEqBytes(v, h.ECH)), "ech")
	v, ok = find(6)
	vAssert(ok == (len(h.IPv6Hint) > 0) && (!ok || vEqBytes(v, h.IPv6Hint[0])), "ipv6hint")
	vAssert(len(params) <= 6, "no other parameters")
	vReach("refdecoded")
}

// verifC13Chain: a name reached through a long chain of backward compression
// pointers (k hops, each fragment one symbolic label plus a pointer to the
// previous fragment, all stored in the opaque RDATA of a preceding record)
// decodes to all k+1 labels: legal compression depth is not limited.
func verifC13Chain() {
	k := 14
	if vTier() > 0 {
		k = 40
	}
	hdr := []byte{0, 1, 0x81, 0x80, 0, 0, 0, 2, 0, 0, 0, 0}
	base := 12 + 11 // first RR: root owner (1) + type/class/ttl/rdlength (10)
	var rd []byte
	var labels []byte
	offs := make([]int, k)
	for i := 0; i < k; i++ {
		c := vByte()
		vAssume(c != '.')
		labels = append(labels, c)
		offs[i] = base + len(rd)
		if i == 0 {
			rd = append(rd, 1, c, 0)
		} else {
			rd = append(rd, 1, c, 0xc0|byte(offs[i-1]>>8), byte(offs[i-1]))
		}
	}
	rr1 := append([]byte{0, 0x03, 0xe7, 0, 1, 0, 0, 0, 0, byte(len(rd) >> 8), byte(len(rd))}, rd...)
	last := vByte()
	vAssume(last != '.')
	rr2 := []byte{1, last, 0xc0 | byte(offs[k-1]>>8), byte(offs[k-1]), 0, 1, 0, 1, 0, 0, 0, 9, 0, 4, 10, 0, 0, 1}
	msg := append(append(hdr, rr1...), rr2...)
	d, err := DecodeMessage(msg)
	vAssert(err == nil && len(d.Answer) == 2, "a response with a deep (legal) compression chain decodes")
	want := []byte{last}
	for i := k - 1; i >= 0; i-- {
		want = append(want, '.', labels[i])
	}
	vAssert(d.Answer[1].Name == string(want), "all labels of the chained name are returned in order")
	vReach("chain")
}

// ---- reference encoder for whole messages (RFC 1035 4.1, RFC 6891 6.1.2, RFC 9460 2.2), no compression

func vU16b(v uint16) []byte { return []byte{byte(v >> 8), byte(v)} }

func vRefRData(rr RR) []byte {
	switch d := rr.Data.(type) {
	case net.IP:
		// an A record holds the 4-byte form of the address, an AAAA record the 16-byte form, however the caller spelled it
		if rr.Type == 1 && d.To4() != nil {
			return append([]byte{}, d.To4()...)
		}
		if rr.Type == 28 && len(d) == 4 {
			return append([]byte{}, d.To16()...)
		}
		return append([]byte{}, d...)
	case string:
		return vRefName(d, -1)
	case []Option:
		var out []byte
		for _, o := range d {
			out = vCat(out, vU16b(o.Code), vU16b(uint16(len(o.Data))), o.Data)
		}
		return out
	case HTTPS:
		out := vCat(vU16b(d.Priority), vRefName(d.Target, -1))
		if len(d.ALPN) > 0 {
			var l []byte
			for _, a := range d.ALPN {
				l = vCat(l, []byte{byte(len(a))}, []byte(a))
			}
			out = vCat(out, vU16b(1), vU16b(uint16(len(l))), l)
		}
		if d.NoDefaultALPN {
			out = vCat(out, vU16b(2), vU16b(0))
		}
		if d.Port > 0 {
			out = vCat(out, vU16b(3), vU16b(2), vU16b(d.Port))
		}
		if len(d.IPv4Hint) > 0 {
			var l []byte
			for _, ip := range d.IPv4Hint {
				if ip.To4() != nil {
					ip = ip.To4()
				}
				l = vCat(l, ip)
			}
			out = vCat(out, vU16b(4), vU16b(uint16(len(l))), l)
		}
		if len(d.ECH) > 0 {
			out = vCat(out, vU16b(5), vU16b(uint16(len(d.ECH))), d.ECH)
		}
		if len(d.IPv6Hint) > 0 {
			var l []byte
			for _, ip := range d.IPv6Hint {
				l = vCat(l, ip)
			}
			out = vCat(out, vU16b(6), vU16b(uint16(len(l))), l)
		}
		return out
	}
	return nil
}

func vRefRR(rr RR) []byte {
	rd := vRefRData(rr)
	return vCat(vRefName(rr.Name, -1), vU16b(rr.Type), vU16b(rr.Class),
		[]byte{byte(rr.TTL >> 24), byte(rr.TTL >> 16), byte(rr.TTL >> 8), byte(rr.TTL)}, vU16b(uint16(len(rd))), rd)
}

func vRefMessage(m Message) []byte {
	flags := uint16(m.QR&1)<<15 | uint16(m.OpCode&0xf)<<11 | uint16(m.AA&1)<<10 | uint16(m.TC&1)<<9 | uint16(m.RD&1)<<8 | uint16(m.RA&1)<<7 | uint16(m.RCode&0xf)
	out := vCat(vU16b(m.ID), vU16b(flags), vU16b(uint16(len(m.Question))), vU16b(uint16(len(m.Answer))), vU16b(uint16(len(m.Authority))), vU16b(uint16(len(m.Additional))))
	for _, q := range m.Question {
		out = vCat(out, vRefName(q.Name, -1), vU16b(q.Type), vU16b(q.Class))
	}
	for _, sec := range [][]RR{m.Answer, m.Authority, m.Additional} {
		for _, rr := range sec {
			out = vCat(out, vRefRR(rr))
		}
	}
	return out
}

// vNameShape: names as callers write them: the root (""), one or two labels, a
// fully-qualified form with a trailing dot, a maximal 63-byte label.
func vNameShape() string {
	switch vInt(0, 4) {
	case 0:
		return ""
	case 1:
		return vName(2)
	case 2:
		n := vName(1)
		vAssume(len(n) > 0)
		return n + "."
	case 3:
		l := make([]byte, 63)
		for i := range l {
			l[i] = 'x'
		}
		return string(l) + ".b"
	}
	return "a.bc"
}

// verifC13Exact: Message.Bytes() is byte for byte what the reference encoder
// produces for the same message (header bit positions, counts, names in every
// caller-side shape, every supported RDATA layout, no stray bytes), so an
// independent RFC 1035 decoder reads exactly this package's message.
func verifC13Exact() {
	m := Message{ID: vUint16(), QR: vByte() & 1, OpCode: vByte() & 0xf, AA: vByte() & 1, TC: vByte() & 1, RD: vByte() & 1, RA: vByte() & 1, RCode: vByte() & 0xf}
	withQ := vBool()
	if withQ {
		m.Question = []Question{{Name: vNameShape(), Type: vUint16(), Class: vUint16()}}
	}
	if !withQ || vTier() > 0 {
		rr := RR{Name: vNameShape(), Class: vUint16(), TTL: vUint32()}
		switch vInt(0, 4) {
		case 0:
			rr.Type, rr.Data = 1, net.IP(vBytes(4))
			if vBool() {
				b := vBytes(4)
				rr.Data = net.IPv4(b[0], b[1], b[2], b[3]) // the 16-byte spelling net.ParseIP and net.IPv4 return
			}
		case 1:
			rr.Type, rr.Data = 28, net.IP(vBytes(16))
		case 2:
			rr.Type = []uint16{2, 5, 12}[vInt(0, 2)]
			rr.Data = vNameShape()
		case 3:
			rr.Type = 41
			opts := []Option{}
			for i, n := 0, vInt(0, 2); i < n; i++ {
				opts = append(opts, Option{Code: vUint16(), Data: vBytes(i)})
			}
			rr.Data = opts
		case 4:
			rr.Type = 65
			h := HTTPS{Priority: vUint16(), Target: vNameShape(), NoDefaultALPN: vBool(), Port: vUint16()}
			if vBool() {
				h.ALPN = []string{string(vBytes(2)), string(vBytes(1))}
			}
			if vBool() {
				h.IPv4Hint = vIPs(2, 4)
				if vBool() {
					b := vBytes(4)
					h.IPv4Hint[1] = net.IPv4(b[0], b[1], b[2], b[3])
				}
				h.IPv6Hint = vIPs(1+vTier(), 16)
			}
			if vBool() {
				h.ECH = vBytes(3)
			}
			rr.Data = h
		}
		switch vInt(0, 2) {
		case 0:
			m.Answer = []RR{rr}
		case 1:
			m.Authority = []RR{rr}
		default:
			m.Additional = []RR{rr}
		}
	}
	if !withQ && vBool() {
		// every section populated, two questions: sections keep their order
		m.Question = []Question{{Name: "q1.example", Type: 1, Class: 1}, {Name: "q2.example", Type: 28, Class: 1}}
		m.Answer = []RR{{Name: "a.example", Type: 5, Class: 1, TTL: 1, Data: "c.example"}}
		m.Authority = []RR{{Name: "example", Type: 2, Class: 1, TTL: 2, Data: "ns.example"}}
		m.Additional = []RR{{Name: "ns.example", Type: 1, Class: 1, TTL: 3, Data: net.IP{10, 0, 0, 1}}, {Type: 41, Class: 4096, Data: []Option{{Code: 10, Data: []byte{1}}}}}
		d, err := DecodeMessage(m.Bytes())
		vAssert(err == nil && len(d.Question) == 2 && len(d.Answer) == 1 && len(d.Authority) == 1 && len(d.Additional) == 2 &&
			d.Answer[0].Type == 5 && d.Authority[0].Type == 2 && d.Additional[0].Type == 1 && d.Additional[1].Type == 41 && d.Question[1].Name == "q2.example", "a message with every section populated round-trips section by section")
	}
	got := m.Bytes()
	want := vRefMessage(m)
	vAssert(len(got) == len(want), "encoded length equals the reference encoding's (no missing or stray bytes)")
	vAssert(vEqBytes(got, want), "encoded message equals the reference encoding byte for byte")
	vReach("exact")
}

// verifC13RefEncode: a response written by the reference encoder - symbolic
// header flags, one question, one RR of a type this package can only decode
// (TXT, MX, SOA, SRV, SVCB), an HTTPS record in a foreign but legal encoding
// (several hints, the mandatory key 0, an unknown key 7, keys in order), or an
// OPT record in the additional section; names inside RDATA are written either
// in full or as label + pointer to the question name.  DecodeMessage must
// return exactly the fields that were written.
func verifC13RefEncode() {
	qname := vName(2)
	vAssume(len(qname) > 0)
	f1, f2 := vByte(), vByte()
	// (the reserved Z / AD / CD bits of real answers may be set: they must not disturb RA and RCODE)
	kind := vInt(0, 6)
	hdr := []byte{0x12, 0x34, f1, f2, 0, 1, 0, 1, 0, 0, 0, 0}
	if kind == 6 {
		hdr[7], hdr[11] = 0, 1
	}
	q := vCat(vRefName(qname, -1), []byte{0, 1, 0, 1})
	// a name in RDATA: "x" + qname, written in full or compressed against the question
	l := vByte()
	vAssume(l != '.')
	rname := string([]byte{l}) + "." + qname
	wire := vCat([]byte{1, l}, vRefName(qname, -1))
	if vBool() {
		wire = []byte{1, l, 0xc0, 12}
	}
	var typ uint16
	var rd []byte
	var check func(RR)
	switch kind {
	case 0: // TXT: 0..2 character strings
		typ = 16
		var want []string
		for i, n := 0, vInt(0, 2); i < n; i++ {
			t := vBytes(vInt(0, 2))
			rd = vCat(rd, []byte{byte(len(t))}, t)
			want = append(want, string(t))
		}
		check = func(rr RR) {
			t, ok := rr.Data.(TXT)
			vAssert(ok && len(t) == len(want), "TXT: every character string is returned")
			for i := range want {
				vAssert(i < len(t) && t[i] == want[i], "TXT string")
			}
		}
	case 1:
		typ = 15
		pref := vUint16()
		rd = vCat(vU16b(pref), wire)
		check = func(rr RR) {
			m, ok := rr.Data.(MX)
			vAssert(ok && m.Preference == pref && m.Exchange == rname, "MX preference and exchange")
		}
	case 2:
		typ = 6
		nums := vBytes(20)
		rd = vCat(wire, vRefName(qname, -1), nums)
		check = func(rr RR) {
			so, ok := rr.Data.(SOA)
			u := func(i int) uint32 {
				return uint32(nums[i])<<24 | uint32(nums[i+1])<<16 | uint32(nums[i+2])<<8 | uint32(nums[i+3])
			}
			vAssert(ok && so.MName == rname && so.RName == qname, "SOA names")
			vAssert(ok && so.Serial == u(0) && so.Refresh == u(4) && so.Retry == u(8) && so.Expire == u(12) && so.Minimum == u(16), "SOA numbers")
		}
	case 3:
		typ = 33
		a, b, c := vUint16(), vUint16(), vUint16()
		rd = vCat(vU16b(a), vU16b(b), vU16b(c), wire)
		check = func(rr RR) {
			sv, ok := rr.Data.(SRV)
			vAssert(ok && sv.Priority == a && sv.Weight == b && sv.Port == c && sv.Target == rname, "SRV fields")
		}
	case 4: // SVCB with 0..2 parameters of arbitrary (increasing) keys
		typ = 64
		prio := vUint16()
		rd = vCat(vU16b(prio), vRefName(qname, -1))
		var keys []uint16
		var vals [][]byte
		k0 := vUint16()
		for i, n := 0, vInt(0, 2); i < n; i++ {
			key := k0
			if i == 1 {
				key = vUint16()
				vAssume(key > k0)
			}
			val := vBytes(vInt(0, 2))
			rd = vCat(rd, vU16b(key), vU16b(uint16(len(val))), val)
			keys = append(keys, key)
			vals = append(vals, val)
		}
		check = func(rr RR) {
			sv, ok := rr.Data.(SVCB)
			vAssert(ok && sv.Priority == prio && sv.Target == qname && len(sv.Params) == len(keys), "SVCB priority, target, number of parameters")
			for i := range keys {
				vAssert(i < len(sv.Params) && sv.Params[i].Key == keys[i] && vEqBytes(sv.Params[i].Value, vals[i]), "SVCB parameter")
			}
		}
	case 5: // HTTPS as another implementation may write it
		typ = 65
		prio := vUint16()
		rd = vCat(vU16b(prio), vRefName(qname, -1))
		mandatory := vBool()
		if mandatory {
			rd = vCat(rd, vU16b(0), vU16b(2), vU16b(1)) // mandatory = alpn
		}
		proto := vBytes(2)
		rd = vCat(rd, vU16b(1), vU16b(3), []byte{2}, proto)
		ip4 := vBytes(8)
		rd = vCat(rd, vU16b(4), vU16b(8), ip4)
		ip6 := vBytes(32)
		rd = vCat(rd, vU16b(6), vU16b(32), ip6)
		unknown := vBool()
		if unknown {
			rd = vCat(rd, vU16b(7), vU16b(2), []byte("/d")) // dohpath
		}
		check = func(rr RR) {
			h, ok := rr.Data.(HTTPS)
			vAssert(ok && h.Priority == prio && h.Target == qname, "HTTPS priority and target")
			vAssert(ok && len(h.ALPN) == 1 && h.ALPN[0] == string(proto), "HTTPS alpn")
			vAssert(ok && len(h.IPv4Hint) == 2 && vEqBytes(h.IPv4Hint[0], ip4[:4]) && vEqBytes(h.IPv4Hint[1], ip4[4:]), "HTTPS: every ipv4hint address is returned")
			vAssert(ok && len(h.IPv6Hint) == 2 && vEqBytes(h.IPv6Hint[0], ip6[:16]) && vEqBytes(h.IPv6Hint[1], ip6[16:]), "HTTPS: every ipv6hint address is returned")
		}
	case 6: // OPT (EDNS, RFC 6891) in the additional section, root owner
		typ = 41
		var codes []uint16
		var datas [][]byte
		for i, n := 0, vInt(0, 2); i < n; i++ {
			c := vUint16()
			dt := vBytes(vInt(0, 2))
			rd = vCat(rd, vU16b(c), vU16b(uint16(len(dt))), dt)
			codes = append(codes, c)
			datas = append(datas, dt)
		}
		check = func(rr RR) {
			o, ok := rr.Data.([]Option)
			vAssert(ok && len(o) == len(codes), "OPT: every option is returned")
			for i := range codes {
				vAssert(i < len(o) && o[i].Code == codes[i] && vEqBytes(o[i].Data, datas[i]), "OPT option code and data")
			}
		}
	}
	ttl := vUint32()
	cls := vUint16()
	owner := []byte{0xc0, 12}
	ownerName := qname
	if kind == 6 {
		owner, ownerName = []byte{0}, ""
	}
	rr := vCat(owner, vU16b(typ), vU16b(cls), []byte{byte(ttl >> 24), byte(ttl >> 16), byte(ttl >> 8), byte(ttl)}, vU16b(uint16(len(rd))), rd)
	msg := vCat(hdr, q, rr)
	d, err := DecodeMessage(msg)
	vAssert(err == nil, "reference-encoded response decodes")
	vAssert(d.ID == 0x1234 && d.QR == f1>>7 && d.OpCode == f1>>3&0xf && d.AA == f1>>2&1 && d.TC == f1>>1&1 && d.RD == f1&1 && d.RA == f2>>7 && d.RCode == f2&0xf, "header fields at their RFC 1035 bit positions")
	vAssert(len(d.Question) == 1 && d.Question[0].Name == qname && d.Question[0].Type == 1 && d.Question[0].Class == 1, "question")
	sec := d.Answer
	if kind == 6 {
		sec = d.Additional
	}
	vAssert(len(sec) == 1 && len(d.Answer)+len(d.Authority)+len(d.Additional) == 1, "one record, in its section")
	got := sec[0]
	vAssert(got.Name == ownerName && got.Type == typ && got.Class == cls && got.TTL == ttl, "owner, type, class, TTL")
	check(got)
	vReach("refencoded")
}

// verifC13MaxName: names of the maximal legal size (255 octets on the wire: 127
// one-byte labels, or 63.63.63.61) and one octet shorter encode, decode back to
// the same question and survive AddPadding.
func verifC13MaxName() {
	var name []byte
	switch vInt(0, 3) {
	case 0, 1:
		n := 127 - vInt(0, 1)
		for i := 0; i < n; i++ {
			if i > 0 {
				name = append(name, '.')
			}
			name = append(name, 'a'+byte(i%26))
		}
	default:
		for _, l := range []int{63, 63, 63, 61 - vInt(0, 1)} {
			if len(name) > 0 {
				name = append(name, '.')
			}
			for i := 0; i < l; i++ {
				name = append(name, 'k')
			}
		}
	}
	m := &Message{RD: 1, Question: []Question{{Name: string(name), Type: 65, Class: 1}}}
	if vBool() {
		m.AddPadding()
		vAssert(len(m.Bytes())%128 == 0, "padded length is a multiple of 128")
	}
	b := m.Bytes()
	vAssert(vEqBytes(b[12:12+len(name)+2], vRefName(string(name), -1)), "maximal name encoded label by label")
	d, err := DecodeMessage(b)
	vAssert(err == nil && len(d.Question) == 1 && d.Question[0].Name == string(name), "a name of maximal legal size round-trips")
	// and as an answer owner reached through a pointer
	resp := vCat([]byte{0, 0, 0x81, 0x80, 0, 1, 0, 1, 0, 0, 0, 0}, b[12:12+len(name)+2+4], []byte{0xc0, 12, 0, 1, 0, 1, 0, 0, 0, 9, 0, 4, 10, 0, 0, 1})
	d2, err := DecodeMessage(resp)
	vAssert(err == nil && len(d2.Answer) == 1 && d2.Answer[0].Name == string(name), "a maximal name reached through a compression pointer decodes")
	vReach("maxname")
}
