package dns

import "net"

// C12: decoding any DNS message terminates, within bounds, without panicking,
// and yields record data of the Go type implied by the record type.

func vDataTypeOK(rr RR) bool {
	switch rr.Type {
	case 1, 28:
		ip, ok := rr.Data.(net.IP)
		return ok && (rr.Type == 1 && len(ip) == 4 || rr.Type == 28 && len(ip) == 16)
	case 2, 5, 12:
		_, ok := rr.Data.(string)
		return ok
	case 6:
		_, ok := rr.Data.(SOA)
		return ok
	case 15:
		_, ok := rr.Data.(MX)
		return ok
	case 16:
		_, ok := rr.Data.(TXT)
		return ok
	case 29:
		_, ok := rr.Data.(LOC)
		return ok
	case 33:
		_, ok := rr.Data.(SRV)
		return ok
	case 37:
		_, ok := rr.Data.(CERT)
		return ok
	case 41:
		_, ok := rr.Data.([]Option)
		return ok
	case 43:
		_, ok := rr.Data.(DS)
		return ok
	case 46:
		_, ok := rr.Data.(RRSIG)
		return ok
	case 47:
		_, ok := rr.Data.(NSEC)
		return ok
	case 48:
		_, ok := rr.Data.(DNSKEY)
		return ok
	case 64:
		_, ok := rr.Data.(SVCB)
		return ok
	case 65:
		_, ok := rr.Data.(HTTPS)
		return ok
	case 256:
		_, ok := rr.Data.(URI)
		return ok
	case 257:
		_, ok := rr.Data.(CAA)
		return ok
	}
	_, ok := rr.Data.([]byte)
	return ok
}

func vCheckDecoded(m *Message, rawLen int) {
	vAssert(len(m.Question) <= rawLen && len(m.Answer) <= rawLen && len(m.Authority) <= rawLen && len(m.Additional) <= rawLen, "section sizes bounded by input length")
	for _, q := range m.Question {
		vAssert(len(q.Name) <= 2*rawLen, "decoded name no longer than the message (pointers only go backwards)")
	}
	for _, sec := range [][]RR{m.Answer, m.Authority, m.Additional} {
		for _, rr := range sec {
			vAssert(vDataTypeOK(rr), "RR data has the Go type implied by its type")
			vAssert(len(rr.Name) <= 2*rawLen, "decoded name no longer than the message (pointers only go backwards)")
			if n, ok := rr.Data.(string); ok {
				vAssert(len(n) <= 2*rawLen, "decoded name no longer than the message (pointers only go backwards)")
			}
			if h, ok := rr.Data.(HTTPS); ok {
				for _, ip := range h.IPv4Hint {
					vAssert(len(ip) == 4, "every ipv4hint address has 4 bytes")
				}
				for _, ip := range h.IPv6Hint {
					vAssert(len(ip) == 16, "every ipv6hint address has 16 bytes")
				}
				vAssert(len(h.ALPN) <= rawLen && len(h.IPv4Hint) <= rawLen && len(h.IPv6Hint) <= rawLen, "decoded lists bounded by the input length")
			}
			if sv, ok := rr.Data.(SVCB); ok {
				vAssert(len(sv.Params) <= rawLen, "decoded lists bounded by the input length")
			}
			if t, ok := rr.Data.(TXT); ok {
				vAssert(len(t) <= rawLen, "decoded lists bounded by the input length")
			}
		}
	}
}

// verifC12Raw: the whole message is symbolic (header, counts, names, pointers, RDATA).
func verifC12Raw() {
	s := 4
	if vTier() > 0 {
		s = 6
	}
	n := vInt(0, 12+s)
	b := vBytes(n)
	// ID and flag bytes are never branched on by the decoder; pin them so that
	// pointers into the header see concrete bytes (the four counts stay symbolic).
	for i := 0; i < 4 && i < n; i++ {
		b[i] = 0
	}
	m, err := DecodeMessage(b)
	if err != nil {
		vReach("rejected")
		return
	}
	vReach("decoded")
	vCheckDecoded(m, n)
}

// verifC12Names: header pinned to one question (or one answer); the name area and
// what follows are symbolic so that compression pointers (backward, forward,
// self, chains, cycles) are chosen by the solver.
func verifC12Names() {
	s := 10
	if vTier() > 0 {
		s = 11
	}
	var hdr []byte
	if vBool() {
		hdr = []byte{0, 0, 0x81, 0x80, 0, 1, 0, 0, 0, 0, 0, 0}
	} else {
		hdr = []byte{0, 0, 0x81, 0x80, 0, 0, 0, 1, 0, 0, 0, 0}
		s += 4
	}
	b := append(hdr, vBytes(vInt(0, s))...)
	m, err := DecodeMessage(b)
	if err != nil {
		vReach("rejected")
		return
	}
	vReach("decoded")
	vCheckDecoded(m, len(b))
}

// verifC12RData: one answer RR with owner name root, symbolic type drawn from the
// decoded types (+ an unknown one) and symbolic RDATA.
func verifC12RData() {
	types := []uint16{1, 2, 5, 6, 12, 15, 16, 28, 29, 33, 37, 41, 43, 46, 47, 48, 64, 65, 256, 257, 999}
	typ := types[vInt(0, len(types)-1)]
	k := 5
	if vTier() > 0 {
		k = 6
	}
	rd := vBytes(vInt(0, k))
	hdr := []byte{0, 0, 0x81, 0x80, 0, 0, 0, 0, 0, 0, 0, 0} // (flags concrete: names in RDATA may point into the header)
	sec := vInt(0, 2) // the record sits in the answer, authority or additional section
	hdr[7+2*sec] = 1
	// the class is symbolic: the Go type of the data is implied by the record type alone
	cls := []byte{0, 1}
	if typ == 1 || typ == 28 || typ == 999 || typ == 37 || typ == 43 || typ == 48 {
		cls = vBytes(2) // (kept concrete for types whose RDATA holds names: pointers into symbolic class bytes multiply paths)
	}
	rr := []byte{0, byte(typ >> 8), byte(typ), cls[0], cls[1], vByte(), vByte(), vByte(), vByte(), byte(len(rd) >> 8), byte(len(rd))}
	b := append(append(hdr, rr...), rd...)
	m, err := DecodeMessage(b)
	if err != nil {
		vReach("rejected")
		return
	}
	vReach("decoded")
	got := [][]RR{m.Answer, m.Authority, m.Additional}[sec]
	vAssert(len(got) == 1 && got[0].Type == typ && len(m.Answer)+len(m.Authority)+len(m.Additional) == 1, "one record of the given type in the section that holds it")
	vCheckDecoded(m, len(b))
}

// vOneRR wraps RDATA into a message with one answer RR (root owner, class IN).
func vOneRR(typ uint16, rd []byte) []byte {
	hdr := []byte{0, 0, 0x81, 0x80, 0, 0, 0, 1, 0, 0, 0, 0}
	rr := []byte{0, byte(typ >> 8), byte(typ), 0, 1, 0, 0, 0, 60, byte(len(rd) >> 8), byte(len(rd))}
	return append(append(hdr, rr...), rd...)
}

// verifC12Params: hostile RDATA behind a well-formed prefix, so that the inner
// parsers are reached: SVCB/HTTPS SvcParams (key 0..8 or unknown, declared length
// symbolic, value bytes symbolic - alpn lists, port, address hints, ech), the SOA
// tail, the SRV target, the RRSIG signer and LOC.
func verifC12Params() {
	var typ uint16
	var rd []byte
	switch vInt(0, 5) {
	case 0, 1:
		typ = []uint16{65, 64}[vInt(0, 1)]
		key := vUint16()
		vAssume(key <= 8 || key == 0xff00)
		vl := vInt(0, 9+4*vTier())
		if key == 6 {
			vl = []int{15, 16, 17, 32}[vInt(0, 3)]
		}
		val := vBytes(vl)
		dl := vl + []int{0, 1, -1}[vInt(0, 2)] // declared length: exact, one too many, one too few
		vAssume(dl >= 0)
		rd = vCat([]byte{vByte(), vByte(), 0}, []byte{byte(key >> 8), byte(key), byte(dl >> 8), byte(dl)}, val)
		if dl == vl && vBool() {
			// a second parameter follows (keys must increase; the decoder may or may not insist)
			rd = vCat(rd, []byte{0, vByte(), 0, 1}, vBytes(vInt(0, 2)))
		}
	case 2:
		typ = 6
		rd = vCat([]byte{0, 0}, vBytes([]int{0, 19, 20, 21}[vInt(0, 3)]))
	case 3:
		typ = 33
		rd = vCat(make([]byte, 6), vBytes(vInt(0, 3))) // priority/weight/port are never branched on
	case 4:
		typ = 46
		rd = vCat(make([]byte, 18), vBytes(vInt(0, 3))) // the fixed RRSIG fields are never branched on
	case 5:
		typ = 29
		rd = vBytes([]int{15, 16, 17}[vInt(0, 2)])
	}
	b := vOneRR(typ, rd)
	m, err := DecodeMessage(b)
	if err != nil {
		vReach("rejected")
		return
	}
	vReach("decoded")
	vAssert(len(m.Answer) == 1 && m.Answer[0].Type == typ, "one answer of the given type")
	vCheckDecoded(m, len(b))
}

// verifC12Memory: header count fields far larger than the body can hold (each
// 0, 1, 0x1000 or 0xffff) over a body of up to 4 symbolic bytes: the decoder's
// allocations stay within a small polynomial of the message length.
func verifC12Memory() {
	cnt := func() []byte {
		v := []int{0, 1, 0x1000, 0xffff}[vInt(0, 3)]
		return []byte{byte(v >> 8), byte(v)}
	}
	b := vCat([]byte{0, 0, 0x81, 0x80}, cnt(), cnt(), cnt(), cnt(), vBytes(vInt(0, 4)))
	before := vAllocated()
	m, err := DecodeMessage(b)
	used := vAllocated() - before
	vAssert(used <= 16384+1024*int64(len(b)), "allocations bounded by a small polynomial of the message length, whatever the count fields claim")
	if err == nil {
		vCheckDecoded(m, len(b))
		vReach("decoded")
	} else {
		vReach("rejected")
	}
}

// verifC12Cycles: compression-pointer cycles that live in bytes which are never
// decoded as the start of a name themselves: the message ID is symbolic (so a
// pointer into the header can meet another pointer there) and an opaque RDATA
// area in front of a later owner name holds symbolic bytes.
func verifC12Cycles() {
	id := vBytes(2)
	var b []byte
	if vBool() {
		// one question; its name may point into the header
		b = append(append(id, 0x01, 0x00, 0, 1, 0, 0, 0, 0, 0, 0), vBytes(vInt(0, 4))...)
	} else {
		// answer 1: root owner, unknown type, 4 opaque RDATA bytes (offsets 23..26);
		// answer 2: owner name of <= 3 symbolic bytes that may point into them
		rr1 := append([]byte{0, 0x03, 0xe7, 0, 1, 0, 0, 0, 0, 0, 4}, vBytes(4)...)
		b = append(append(append(id, 0x81, 0x80, 0, 0, 0, 2, 0, 0, 0, 0), rr1...), vBytes(vInt(0, 3))...)
	}
	m, err := DecodeMessage(b)
	if err != nil {
		vReach("rejected")
		return
	}
	vReach("decoded")
	vCheckDecoded(m, len(b))
}

// verifC12FarPointers: compression pointers whose offset needs the high bits
// (targets beyond offset 255): an opaque 260-byte RDATA in front, whose last
// bytes are symbolic, then an owner name of up to 3 symbolic bytes.
func verifC12FarPointers() {
	opaque := vCat(make([]byte, 256), vBytes(4))
	for i := 0; i < 256; i++ {
		opaque[i] = 0xC0 // a pointer byte everywhere: masking the offset wrongly lands on a pointer to offset 0xC0C0 & mask
	}
	rr1 := vCat([]byte{0, 0x03, 0xe7, 0, 1, 0, 0, 0, 0, byte(len(opaque) >> 8), byte(len(opaque))}, opaque)
	tail := vBytes(vInt(2, 3))
	vAssume(tail[0] >= 0xC1) // a pointer with an offset of 256 or more
	b := vCat([]byte{0, 0, 0x81, 0x80, 0, 0, 0, 2, 0, 0, 0, 0}, rr1, tail)
	m, err := DecodeMessage(b)
	if err != nil {
		vReach("rejected")
		return
	}
	vReach("decoded")
	vCheckDecoded(m, len(b))
	off := (int(tail[0])&0x3f)<<8 | int(tail[1])
	vAssert(off < len(b), "a pointer that was followed lies inside the message (its full 14-bit offset)")
}

func vCat(parts ...[]byte) []byte {
	var out []byte
	for _, p := range parts {
		out = append(out, p...)
	}
	return out
}
