#!/usr/bin/env python3
import json
props={}
for l in open('/verif/properties.jsonl'):
    p=json.loads(l); props[p['id']]=p
claimed={
 'C02':("For every single-byte modification of the outer hello (all offsets, all masks) and 12 field substitutions/insertions of one honest tuple shape, the solver shows that no path reaches acceptance, and that the honest tuple is accepted; the ideal-HPKE model turns 'accepted' into 'the code passed byte-identical (key,suite,info,enc,seq,aad,payload)'.",'ideal HPKE model; structured hello shape; length-byte growth bound; ciphertext-derived-length cut (counted)'),
 'C03':("All layouts within the bound (extension positions, marker position, referenced subsequence, padding, session id) are explored symbolically; the delivered record is compared byte for byte with a reference reconstruction; contents and the type of the inner hello's own opaque extension are symbolic.","ideal HPKE model; bounds on extension counts and lengths"),
 'C04':("Each rule violation of the statement (R1..R10, several shapes each, incl. keyless servers and retry-hello rules in 18 variants) is applied with symbolic contents to a valid hello; error class, alert bytes and version, Close and no forwarding are asserted on every path.",'ideal HPKE model; single faults; one hello shape per rule (reference-list rules: two positions of the ECH extension)'),
 'C05':("Raw and structured ClientHellos within the byte bounds: forwarded bytes equal the client's bytes, valid hellos are not refused, ServerName/ALPN equal a reference extraction and what crypto/tls's own server extracts from the forwarded bytes; later records after a non-accepted ECH pass untouched.","reference recogniser in the harness and crypto/tls's server (interpreted from SSA, real natively) are the oracles; raw bounds are small (x13 paths per 4 free bytes)"),
 'C06':("All histories of 3 records over 10 event kinds, record types 20/21/23/24 and 6 (quick) / 13 (thorough) second-hello variants incl. a third hello are explored and compared step by step with a reference monitor of the statement; two connections sharing keys are explored for non-interference.",'ideal HPKE model; history length bound; one record per call'),
 'C07':("Read/Write pipes explored over symbolic record streams, cuts, chunkings and buffer sizes from stated sets, plus a one-step inductive Write harness over arbitrary invariant-satisfying states.","direct construction of the post-acceptance state; chunk sizes fixed per run"),
 'C08':("Implicit Go assertions (bounds, nil, type assertion, unrecovered panic, loop unwinding) are checked by the engine on every path of raw and structured inputs to NewConn/Read/Write; record lengths around the accepted maximum; refusal paths.",'byte bounds; allocation measured only where vAllocated is asserted'),
 'C09':("Key lists with solver-chosen id collisions, target at every position or absent: verdict and reconstructed hello compared with the single-key expectation.","ideal HPKE model; first hellos only"),
 'C10':("All scheduling-point interleavings of {hello available, NewConn returns, cancel, deadline expiry, watcher runs} incl. both select outcomes are explored in virtual time; deadline calls (SetDeadline, SetReadDeadline, SetWriteDeadline) on the transport, later I/O and the return time are asserted.",'cooperative-scheduling model: no pre-emption between ordinary instructions'),
 'C11':("Encoder vs hand-written section-4 layout, Spec/ParseConfigList round trips, refusal of 0/256-byte names, empty keys and empty suite lists, raw parser robustness and framing (extensions vector, list tiling, version), truncation and non-interference, for symbolic ids/KEMs/suites/keys/names within the bounds; crypto/tls's client parses the lists and picks the config, crypto/tls's server accepts the keys (both up to their HPKE set-up).",'real handshakes are not checked (C01); GenerateKey stubbed'),
 'C12':("Every decoder path over bounded symbolic messages: no panic, loop-unwinding limit as termination assertion, RR data type matches RR type, name/hint/list bounds, allocation bounded linearly in the message length, far and looping compression pointers.",'small byte bounds; floats opaque'),
 'C13':("Encode/decode round trip for symbolic messages of the supported record types, byte-exact comparison with a reference encoder, decoding of reference-compressed responses, padding for all name lengths 0..130 (5 shapes, option survival, idempotence), ResponseCode as a bit-vector identity.",'reference encoder in the harness; no second full codec'),
 'C14':("Concrete name forms (12 names, 20 literals) x symbolic zones: first query name per RFC 9460 2.3, bounded alias chain with loop and CNAME hops, ordering, owner/CNAME filter against poisoned answers, exact rcode mapping, completeness of served addresses, hostile name lengths and targets.",'name strings concrete; DoH seam'),
 'C15':("Yielded target sequence equals a straight-line reference for symbolic results, networks and early termination; deep snapshot (incl. spare capacity) unchanged; second enumeration identical.","bounds on record/address counts"),
 'C16':("Sequential freshness: min-TTL as a 32-bit query over all TTL values incl. NODATA; symbolic-clock histories against ghost fetch times with the real LRU code; repeated lookups served from an unmodified cache; failures never replace fresh entries. Concurrency: two concurrent Resolve+Targets users under every schedule with <=2 pre-emptions at synchronisation points, with a vector-clock happens-before race monitor over variables and maps (native replay under -race).",'DoH seam; history length bound; race detection only over synchronisation-point schedules of 2 goroutines'),
 'C17':("Every DialFunc invocation over symbolic requirement/config/result/outcome combinations (3-way record ECH x 3-way caller ECH, wrapped rejections, hostile retry configs, own Resolver, bootstrap) is checked against the statement's rules; the caller's tls.Config is compared with its snapshot.",'cooperative scheduling, MaxConcurrency 1'),
 'C18':("Reduced strength: virtual-time exploration of outcome/duration/cancellation assignments for <=3 targets with select forks, plus delay-bounded (2 delays) schedules with go/chan/select/atomic scheduling points; order, concurrency bound, staggering, timeout, exact return times, joined errors, loser closing, leak freedom asserted.",'bounded pre-emption only; duration grid; engine-only upper time bounds'),
 'C19':("h3 decision table, record filtering, scheme upgrade, Host preservation and override, TLS name pinning, caller TLSConfig, exact attempt sequence and plaintext refusal checked over symbolic HTTPS record sets for 4 URL forms; pool keys pairwise distinct for adversarially similar origins; validated natively against the real http.Transport.",'net/http pooling itself not encoded; RoundTrip model'),
 'C20':("PublishECH over symbolic parameter strings, three config lists (all base64 padding shapes), two zones, duplicate targets and one injected fault: result order/codes/Err(), exactly-one ech token, other tokens, priority and target preserved, no unrequested write, retry after a failed write, idempotent republish.",'seams hide HTTP/JSON/pagination; stated preconditions on parameters'),
}
checks=[]
for pid in sorted(claimed):
    text,note=claimed[pid]
    checks.append({
      "property_id":pid,
      "quick_cmd":"/verif/bin/gosym check %s --tier quick"%pid,
      "thorough_cmd":"/verif/bin/gosym check %s --tier thorough"%pid,
      "evidence_file":"/verif/evidence/%s.json"%pid,
      "replay_cmd_template":"/verif/bin/gosym replay {path}",
      "engine":"gosym",
      "level_claimed":{"category":"model_checking","text":text+" Bounded: every path within the stated bounds is decided by z3 (QF_BV); nothing outside the bounds is claimed.","design_ref":"DESIGN.md section 3 "+pid},
      "level_note":note+"; engine soundness rests on witness replay against the native build on every run and native confirmation of every reported violation",
      "technique":"bounded symbolic execution of the real Go code from go/ssa with an SMT solver (z3, QF_BV) deciding every branch and assertion; counterexamples replayed natively with go test -overlay",
    })
man={
 "version":1,
 "setup_cmd":"cd /verif/engine && GOFLAGS=-mod=mod GOPROXY=off go build -o /verif/bin/gosym . && mkdir -p /verif/.work /verif/evidence /verif/replays",
 "hooks":{"guard":"verif","enable":"no hooks in /repo: harnesses (/verif/harness) and stub seams (engine/seams.go: dns.DoH, publish getZoneData/updateRecord get a hook-variable prologue) are injected as go/packages overlays and `go test -overlay` overlays; /repo is never written by a check","baseline_off_cmd":"cd /repo && for m in . ./publish ./quic; do (cd $m && go test -mod=mod -vet=off -count=1 ./...) || exit 1; done","source_commits":[],"add_only":True},
 "engines":[{"name":"gosym","path":"/verif/engine","serves_properties":sorted(claimed),"kind_free_text":"forking symbolic executor over go/ssa (re-execution DFS, lengths concretised by forking, contents symbolic bit-vectors), z3 -in per worker, triangle if-conversion, ideal-HPKE/transport/clock/DoH environment models, cooperative goroutine layer with virtual time, native replay via go test -overlay"}],
 "checks":checks,
 "not_applicable":[{"property_id":"C01","reason":"end-to-end handshakes need two real TLS stacks and real cryptography (SHA-256 transcripts, X25519, AEAD, signatures, PSK binders); no bound makes that encodable for a solver; its byte-level obligations are decided under C02,C03,C05,C06,C07,C09"}],
 "notes":"All checks rebuild the SSA of /repo's working tree (with overlays) on every run. INCONCLUSIVE lines (time budget, unsupported construct, unknown) never change the exit code; they are recorded in evidence.coverage.inconclusive and switch coverage.exhaustive off. known_findings.json lists fixed defects (each a 'fix:' commit in /repo); no unfixed finding is currently listed."
}
json.dump(man,open('/verif/MANIFEST.json','w'),indent=1)
print(len(checks),"checks")
