#!/usr/bin/env python3
"""Confirm a seeded change (made by a sub-agent in a scratch worktree) and run the checks against it.
usage: tools_seedtest.py <seed-id> <property> <worktree> [check-properties...]"""
import sys, os, subprocess, json, shutil, glob, re, time
sid, prop, wt = sys.argv[1:4]
checkprops = sys.argv[4:] or [prop]
env = dict(os.environ, GOFLAGS="-mod=mod", GOPROXY="off")
seed = os.environ.get("SEED_DIR", os.path.join(wt, "_seed"))
patch = os.path.join(seed, "patch.diff")
def run(cmd, cwd, timeout=900):
    p = subprocess.run(cmd, cwd=cwd, shell=True, env=env, capture_output=True, text=True, timeout=timeout)
    return p.returncode, (p.stdout + p.stderr)
meta = {"seed": sid, "property": prop, "ran": []}
# locate demo test + target dir
demos = [f for f in glob.glob(seed + "/*_test.go")]
readme = open(os.path.join(seed, "README.md")).read() if os.path.exists(os.path.join(seed, "README.md")) else ""
sub = "publish" if prop == "C20" else ("dns" if any("package dns" in open(d).read() for d in demos) else "")
pkgdir = os.path.join(wt, sub)
run("git checkout -- . ", wt)
for d in demos:
    shutil.copy(d, pkgdir)
names = []
for d in demos:
    names += re.findall(r"func (Test\w+)\(", open(d).read())
runpat = "^(" + "|".join(names) + ")$"
rc0, out0 = run(f"go test -vet=off -count=1 -run '{runpat}' .", pkgdir)
meta["ran"].append({"cmd": f"demo without change: go test -run '{runpat}' . (in {sub or '.'})", "exit": rc0})
rca, outa = run(f"git apply {patch}", wt)
rc1, out1 = run(f"go test -vet=off -count=1 -run '{runpat}' .", pkgdir)
meta["ran"].append({"cmd": "demo with change", "exit": rc1, "tail": out1[-600:]})
for d in demos:
    os.remove(os.path.join(pkgdir, os.path.basename(d)))
rcb, outb = run("go build ./... && go test -vet=off -count=1 ./...", wt)
rcp = 0
if prop == "C20":
    rcp, outp = run("go build ./... && go test -vet=off -count=1 ./...", os.path.join(wt, "publish"))
meta["ran"].append({"cmd": "existing suite with change", "exit": rcb or rcp, "tail": outb[-300:]})
run("git checkout -- .", wt)
ok = (rca == 0 and rc0 == 0 and rc1 != 0 and rcb == 0 and rcp == 0)
meta["confirmed"] = ok
print(f"seed {sid}: apply={rca} demo_without={rc0} demo_with={rc1} suite_with={rcb or rcp} -> {'CONFIRMED' if ok else 'REJECTED'}")
if not ok:
    print(out0[-400:], out1[-400:], outb[-400:])
# run our checks against a scratch copy of /repo (HEAD) with the patch applied; /repo and
# /verif/evidence are not touched
det = {}
SR, SV = "/tmp/seedrepo", "/tmp/seedverif"
if not os.path.exists(SR):
    run(f"git -C /repo worktree add -q {SR} HEAD", "/repo")
run("git checkout -q --detach $(git -C /repo rev-parse HEAD) && git checkout -- . && git clean -fdq", SR)
os.makedirs(SV, exist_ok=True)
for d in ("evidence", ".work", "replays"):
    os.makedirs(os.path.join(SV, d), exist_ok=True)
for l in ("harness", "known_findings.json"):
    if not os.path.lexists(os.path.join(SV, l)):
        os.symlink(os.path.join("/verif", l), os.path.join(SV, l))
rc, o = run(f"git apply {patch}", SR)
if rc != 0:
    print("cannot apply to scratch repo:", o)
    sys.exit(1)
env["VERIF_REPO"], env["VERIF_DIR"] = SR, SV
try:
    for cp in checkprops:
        t0 = time.time()
        rc, o = run(f"/verif/bin/gosym check {cp} --tier quick", "/verif", timeout=3000)
        vio = [l for l in o.splitlines() if l.startswith("VIOLATION") or l.startswith("  verif")]
        det[cp] = {"exit": rc, "violations": vio[:8], "wall_s": round(time.time() - t0, 1)}
        print(f"  check {cp}: exit={rc} wall={det[cp]['wall_s']}s", "; ".join(vio[:4])[:400])
finally:
    run("git checkout -- . && git clean -fdq", SR)
meta["detected_by"] = det
meta["detected"] = any(v["exit"] == 1 for v in det.values())
dst = os.path.join("/verif/seeded", sid)
os.makedirs(dst, exist_ok=True)
shutil.copy(patch, dst)
for d in demos:
    shutil.copy(d, dst)
if readme:
    open(os.path.join(dst, "README.agent.md"), "w").write(readme)
meta["needs"] = ""
json.dump(meta, open(os.path.join(dst, "meta.json"), "w"), indent=1)
print("  detected:", meta["detected"])
