package main

import (
	"fmt"
	"go/token"
	"go/types"
	"strconv"
	"strings"
	"unicode/utf8"

	"golang.org/x/tools/go/ssa"
)

var classToSize = []int{0, 8, 16, 24, 32, 48, 64, 80, 96, 112, 128, 144, 160, 176, 192, 208, 224, 240, 256, 288, 320, 352, 384, 416, 448, 480, 512, 576, 640, 704, 768, 896, 1024, 1152, 1280, 1408, 1536, 1792, 2048, 2304, 2688, 3072, 3200, 3456, 4096, 4864, 5376, 6144, 6528, 6784, 6912, 8192, 9472, 9728, 10240, 10880, 12288, 13568, 14336, 16384, 18432, 19072, 20480, 21760, 24576, 27264, 28672, 32768}

func roundupsize(size int, noscan bool) int {
	req := size
	if req <= 32768-8 {
		if !noscan && req > 512 {
			req += 8
		}
		for _, c := range classToSize {
			if c >= req {
				return c - (req - size)
			}
		}
	}
	return (req + 8191) &^ 8191
}

func nextslicecap(newLen, oldCap int) int {
	newcap := oldCap
	doublecap := newcap + newcap
	if newLen > doublecap {
		return newLen
	}
	if oldCap < 256 {
		return doublecap
	}
	for {
		newcap += (newcap + 3*256) >> 2
		if uint(newcap) >= uint(newLen) {
			break
		}
	}
	if newcap <= 0 {
		return newLen
	}
	return newcap
}

var gcSizes = types.SizesFor("gc", "amd64")

func hasPointers(t types.Type) bool {
	switch t := t.Underlying().(type) {
	case *types.Basic:
		return t.Kind() == types.String || t.Kind() == types.UnsafePointer
	case *types.Struct:
		for i := 0; i < t.NumFields(); i++ {
			if hasPointers(t.Field(i).Type()) {
				return true
			}
		}
		return false
	case *types.Array:
		return t.Len() > 0 && hasPointers(t.Elem())
	}
	return true
}

// growCap mirrors runtime.growslice's capacity computation.
func growCap(elem types.Type, newLen, oldCap int) int {
	newcap := nextslicecap(newLen, oldCap)
	es := int(gcSizes.Sizeof(elem))
	if es == 0 {
		return newcap
	}
	mem := roundupsize(newcap*es, !hasPointers(elem))
	return mem / es
}

func (g *Goroutine) callBuiltin(fr *frame, b *ssa.Builtin, args []Value) Value {
	p := g.p
	switch b.Name() {
	case "append":
		s := args[0]
		var add []Value
		switch args[1].K {
		case KStr:
			add = strBytes(args[1])
		case KSlice:
			add = args[1].slice()
		default:
			if args[1].K == KNil {
				add = nil
			} else {
				panic("append of " + kindNames[args[1].K])
			}
		}
		if len(add) == 0 {
			return s
		}
		base := s.slice()
		n := len(base)
		need := n + len(add)
		if need <= cap(base) {
			out := base[:need]
			for i, v := range add {
				if r := g.p.race; r != nil {
					r.accessDeep(g, &out[n+i], true, "append(in place) in "+fr.fn.String())
				}
				out[n+i] = copyVal(v)
			}
			return Value{K: KSlice, R: out}
		}
		if r := g.p.race; r != nil {
			for i := range base {
				r.accessDeep(g, &base[i], false, "append(copy) in "+fr.fn.String())
			}
		}
		elem := b.Type().(*types.Signature).Params().At(0).Type().Underlying().(*types.Slice).Elem()
		nc := growCap(elem, need, cap(base))
		g.p.allocBytes += int64(nc) * gcSizes.Sizeof(elem)
		out := make([]Value, need, nc)
		copy(out, base)
		for i, v := range add {
			out[n+i] = copyVal(v)
		}
		// zero the spare capacity with typed zeros
		if nc > need {
			z := zero(elem)
			spare := out[need:nc]
			for i := range spare {
				if z.K == KAgg {
					spare[i] = zero(elem)
				} else {
					spare[i] = z
				}
			}
		}
		return Value{K: KSlice, R: out}
	case "copy":
		dst := args[0].slice()
		var src []Value
		if args[1].K == KStr {
			src = strBytes(args[1])
		} else {
			src = args[1].slice()
		}
		n := min(len(dst), len(src))
		if n > 0 {
			// handle overlap like memmove
			tmp := make([]Value, n)
			for i := 0; i < n; i++ {
				tmp[i] = copyVal(src[i])
			}
			copy(dst, tmp)
		}
		return mkInt(64, uint64(n))
	case "len":
		x := args[0]
		switch x.K {
		case KStr:
			return mkInt(64, uint64(strLen(x)))
		case KSlice:
			return mkInt(64, uint64(len(x.slice())))
		case KAgg:
			return mkInt(64, uint64(len(x.agg())))
		case KPtr:
			if x.R == nil {
				return mkInt(64, 0)
			}
			return mkInt(64, uint64(len(x.ptr().agg())))
		case KMap:
			if x.R == nil {
				return mkInt(64, 0)
			}
			return mkInt(64, uint64(x.R.(*Map).length()))
		case KChan:
			if x.R == nil {
				return mkInt(64, 0)
			}
			return mkInt(64, uint64(len(x.R.(*Chan).buf)))
		case KNil:
			return mkInt(64, 0)
		}
		panic("len of " + kindNames[x.K])
	case "cap":
		x := args[0]
		switch x.K {
		case KSlice:
			return mkInt(64, uint64(cap(x.slice())))
		case KAgg:
			return mkInt(64, uint64(len(x.agg())))
		case KPtr:
			if x.R == nil {
				return mkInt(64, 0)
			}
			return mkInt(64, uint64(len(x.ptr().agg())))
		case KChan:
			if x.R == nil {
				return mkInt(64, 0)
			}
			return mkInt(64, uint64(x.R.(*Chan).cap))
		}
		panic("cap of " + kindNames[x.K])
	case "delete":
		if args[0].R != nil {
			args[0].R.(*Map).del(fr, args[1])
		}
		return Value{}
	case "close":
		g.chanClose(fr, args[0])
		return Value{}
	case "print", "println":
		return Value{}
	case "recover":
		return g.doRecover(fr)
	case "min", "max":
		r := args[0]
		for _, a := range args[1:] {
			var less Value
			sig := b.Type().(*types.Signature)
			t := sig.Params().At(0).Type()
			if b.Name() == "min" {
				less = fr.binop(token.LSS, t, a, r)
			} else {
				less = fr.binop(token.LSS, t, r, a)
			}
			if less.R == nil {
				if less.N != 0 {
					r = a
				}
			} else if r.K == KInt {
				r = p.norm(mkTermInt(p.ts.Ite(less.term(), p.ts.toTerm(a), p.ts.toTerm(r))))
			} else if fr.truth(less) {
				r = a
			}
		}
		return r
	case "clear":
		x := args[0]
		switch x.K {
		case KSlice:
			s := x.slice()
			if len(s) > 0 {
				elem := b.Type().(*types.Signature).Params().At(0).Type().Underlying().(*types.Slice).Elem()
				for i := range s {
					s[i] = zero(elem)
				}
			}
		case KMap:
			if x.R != nil {
				x.R.(*Map).clear()
			}
		}
		return Value{}
	case "ssa:wrapnilchk":
		if args[0].R == nil && args[0].K == KPtr {
			s1, _ := concStr(args[1])
			s2, _ := concStr(args[2])
			fr.runtimePanic(fmt.Sprintf("value method %s.%s called using nil pointer", s1, s2))
		}
		return args[0]
	case "ssa:deferstack":
		return Value{K: KOpaque, R: &fr.defers}
	case "Add", "Slice", "SliceData", "String", "StringData":
		if r, ok := g.callUnsafeBuiltin(fr, b.Name(), args); ok {
			return r
		}
	case "real", "imag", "complex":
		p.unsupported("complex builtin")
	}
	p.unsupported("builtin %s", b.Name())
	return Value{}
}

func (g *Goroutine) doRecover(fr *frame) Value {
	// recover() is effective only when called directly by a deferred function
	// while the frame that deferred it is panicking.
	if fr != nil && fr.caller != nil && fr.caller.panicking && fr.caller.panicVal != nil {
		c := fr.caller
		gp := c.panicVal
		c.panicking = false
		c.panicVal = nil
		c.recovered = true
		if gp.val.K == KIface {
			return gp.val
		}
		return Value{K: KIface}
	}
	return Value{K: KIface}
}

// ---- maps

type Map struct {
	keyT, elemT types.Type
	keys        []Value
	vals        []Value
	live        []bool
	n           int
	idx         map[string]int // canonical concrete key -> slot
	nsym        int            // number of live keys without canonical form
	gen         uint64
	shadow      Value // one shadow cell for the race monitor: a map is one object for the Go race detector too
}

// raceAccess records a read or write of the map as a whole.
func (m *Map) raceAccess(fr *frame, write bool, what string) {
	if r := fr.g.p.race; r != nil {
		r.access(fr.g, &m.shadow, write, what+" in "+fr.fn.String())
	}
}

func newMap(k, e types.Type) *Map {
	return &Map{keyT: k, elemT: e, idx: make(map[string]int)}
}

func (m *Map) length() int { return m.n }

// canonKey returns a canonical string for fully concrete keys.
func canonKey(v Value, sb *strings.Builder) bool {
	switch v.K {
	case KInt, KBool:
		if v.R != nil {
			return false
		}
		sb.WriteByte('i')
		sb.WriteString(strconv.FormatUint(v.N, 16))
		sb.WriteByte(';')
		return true
	case KFloat:
		sb.WriteByte('f')
		sb.WriteString(strconv.FormatUint(v.N, 16))
		sb.WriteByte(';')
		return true
	case KStr:
		s, ok := concStr(v)
		if !ok {
			return false
		}
		sb.WriteByte('s')
		sb.WriteString(strconv.Itoa(len(s)))
		sb.WriteByte(':')
		sb.WriteString(s)
		return true
	case KPtr, KChan, KMap, KOpaque:
		sb.WriteString(fmt.Sprintf("p%p;", v.R))
		return true
	case KAgg:
		sb.WriteByte('(')
		for _, e := range v.agg() {
			if !canonKey(e, sb) {
				return false
			}
		}
		sb.WriteByte(')')
		return true
	case KIface:
		ifc := v.iface()
		if ifc == nil {
			sb.WriteString("nil;")
			return true
		}
		sb.WriteByte('I')
		sb.WriteString(ifc.T.String())
		sb.WriteByte('|')
		return canonKey(ifc.V, sb)
	case KNil:
		sb.WriteString("nil;")
		return true
	}
	return false
}

func (m *Map) find(fr *frame, key Value) int {
	var sb strings.Builder
	canon := canonKey(key, &sb)
	if canon && m.nsym == 0 {
		if i, ok := m.idx[sb.String()]; ok {
			return i
		}
		return -1
	}
	// linear scan with (possibly symbolic) equality
	for i := range m.keys {
		if !m.live[i] {
			continue
		}
		eq := fr.equal(m.keyT, m.keys[i], key)
		if fr.truth(eq) {
			return i
		}
	}
	return -1
}

func (m *Map) get(fr *frame, key Value) (Value, bool) {
	m.raceAccess(fr, false, "map read")
	i := m.find(fr, key)
	if i < 0 {
		return Value{}, false
	}
	return m.vals[i], true
}

func (m *Map) set(fr *frame, key, val Value) {
	m.raceAccess(fr, true, "map write")
	fr.g.w.noteMapWrite(fr.g, m)
	i := m.find(fr, key)
	if i >= 0 {
		m.vals[i] = val
		return
	}
	key = copyVal(key)
	m.keys = append(m.keys, key)
	m.vals = append(m.vals, val)
	m.live = append(m.live, true)
	m.n++
	var sb strings.Builder
	if canonKey(key, &sb) {
		m.idx[sb.String()] = len(m.keys) - 1
	} else {
		m.nsym++
	}
}

func (m *Map) del(fr *frame, key Value) {
	m.raceAccess(fr, true, "map delete")
	fr.g.w.noteMapWrite(fr.g, m)
	i := m.find(fr, key)
	if i < 0 {
		return
	}
	m.live[i] = false
	m.n--
	var sb strings.Builder
	if canonKey(m.keys[i], &sb) {
		delete(m.idx, sb.String())
	} else {
		m.nsym--
	}
}

func (m *Map) clear() {
	m.keys, m.vals, m.live, m.n, m.nsym = nil, nil, nil, 0, 0
	m.idx = make(map[string]int)
}

func (m *Map) clone() *Map {
	c := &Map{keyT: m.keyT, elemT: m.elemT, idx: make(map[string]int), nsym: 0}
	for i := range m.keys {
		if !m.live[i] {
			continue
		}
		c.keys = append(c.keys, m.keys[i])
		c.vals = append(c.vals, copyVal(m.vals[i]))
		c.live = append(c.live, true)
		c.n++
		var sb strings.Builder
		if canonKey(m.keys[i], &sb) {
			c.idx[sb.String()] = len(c.keys) - 1
		} else {
			c.nsym++
		}
	}
	return c
}

func (fr *frame) lookup(ins *ssa.Lookup) Value {
	x := fr.get(ins.X)
	idx := fr.get(ins.Index)
	if x.K == KStr {
		n := strLen(x)
		i := fr.intIndex(idx, n, "string")
		return strByte(x, i)
	}
	mt := ins.X.Type().Underlying().(*types.Map)
	var v Value
	var ok bool
	if x.R != nil {
		m := x.R.(*Map)
		// debug-only name tables: never fork on them
		if gl, isG := ins.X.(*ssa.UnOp); isG && idx.isSym() {
			if g, isGlobal := gl.X.(*ssa.Global); isGlobal && fr.g.w.prog.opaqueTables[g.String()] {
				fr.g.w.opaqueHits[g.String()]++
				v, ok = mkStr("<sym>"), true
				if ins.CommaOk {
					return mkAgg([]Value{v, mkBool(ok)})
				}
				return v
			}
		}
		v, ok = m.get(fr, idx)
	}
	if !ok {
		v = zero(mt.Elem())
	} else {
		v = copyVal(v)
	}
	if ins.CommaOk {
		return mkAgg([]Value{v, mkBool(ok)})
	}
	return v
}

// ---- range iterators

type iterator interface {
	next(fr *frame) Value // tuple (ok, k, v)
}

type mapIter struct {
	m *Map
	i int
}

func (it *mapIter) next(fr *frame) Value {
	for it.m != nil && it.i < len(it.m.keys) {
		i := it.i
		it.i++
		if it.m.live[i] {
			return mkAgg([]Value{mkBool(true), copyVal(it.m.keys[i]), copyVal(it.m.vals[i])})
		}
	}
	var k, v Value
	if it.m != nil {
		k, v = zero(it.m.keyT), zero(it.m.elemT)
	}
	return mkAgg([]Value{mkBool(false), k, v})
}

type strIter struct {
	s Value
	i int
}

func (it *strIter) next(fr *frame) Value {
	n := strLen(it.s)
	if it.i >= n {
		return mkAgg([]Value{mkBool(false), mkInt(64, 0), mkInt(32, 0)})
	}
	if s, ok := concStr(it.s); ok {
		r, sz := utf8.DecodeRuneInString(s[it.i:])
		res := mkAgg([]Value{mkBool(true), mkInt(64, uint64(it.i)), mkInt(32, uint64(r))})
		it.i += sz
		return res
	}
	b := strByte(it.s, it.i)
	p := fr.g.p
	if b.R != nil {
		// ASCII fast path decided by the solver; non-ASCII symbolic bytes are concretised.
		if p.decideBool(p.ts.Ult(b.term(), p.ts.Const(8, 0x80))) {
			res := mkAgg([]Value{mkBool(true), mkInt(64, uint64(it.i)), mkTermInt(p.ts.ZExt(b.term(), 32))})
			it.i++
			return res
		}
	} else if b.N < 0x80 {
		res := mkAgg([]Value{mkBool(true), mkInt(64, uint64(it.i)), mkInt(32, b.N)})
		it.i++
		return res
	}
	// multi-byte sequence: concretise up to 4 bytes
	var buf []byte
	for j := it.i; j < n && j < it.i+4; j++ {
		bb := strByte(it.s, j)
		if bb.R != nil {
			bb = mkInt(8, p.concretize(bb.term()))
		}
		buf = append(buf, byte(bb.N))
	}
	r, sz := utf8.DecodeRune(buf)
	res := mkAgg([]Value{mkBool(true), mkInt(64, uint64(it.i)), mkInt(32, uint64(r))})
	it.i += sz
	return res
}

func (fr *frame) rangeIter(x Value, t types.Type) Value {
	switch x.K {
	case KMap:
		var m *Map
		if x.R != nil {
			m = x.R.(*Map)
		}
		return Value{K: KOpaque, R: iterator(&mapIter{m: m})}
	case KStr:
		return Value{K: KOpaque, R: iterator(&strIter{s: x})}
	}
	panic("engine: range over " + kindNames[x.K])
}
