package main

// Ideal HPKE: the receiver side used by the code under test succeeds exactly on
// (key, kdf, aead, info, enc, seq, aad, ciphertext) tuples that an honest sender
// registered through the harness API.  Forgeries and cross-key collisions do not exist.

import (
	"golang.org/x/tools/go/ssa"
)

const hpkePkg = "github.com/c2FmZQ/ech/internal/hpke"

type hpkeKey struct {
	priv string // concrete private key bytes
}

type hpkeSender struct {
	priv      string
	kdf, aead uint64
	info      []Value
	enc       []Value
	seq       int
}

type hpkeSeal struct {
	s   *hpkeSender
	seq int
	aad []Value
	ct  []Value
	pt  []Value
}

type hpkeRecv struct {
	priv      string
	kdf, aead uint64
	info      []Value
	enc       []Value
	seq       int
}

type hpkeModel struct {
	senders []*hpkeSender
	seals   []*hpkeSeal
	opens   int
	setups  int
	log     []string
}

func (p *Path) hp() *hpkeModel {
	if p.hpke == nil {
		p.hpke = &hpkeModel{}
	}
	return p.hpke
}

func cloneVals(v []Value) []Value {
	out := make([]Value, len(v))
	copy(out, v)
	return out
}

func concBytes(v []Value) (string, bool) {
	b := make([]byte, len(v))
	for i := range v {
		if v[i].R != nil {
			return "", false
		}
		b[i] = byte(v[i].N)
	}
	return string(b), true
}

func addHpkeIntrinsics(m map[string]Intrinsic) {
	m[hpkePkg+".ParseHPKEPrivateKey"] = func(g *Goroutine, c *frame, fn *ssa.Function, a []Value) (Value, bool) {
		kem := g.forceInt(a[0])
		b := a[1].slice()
		if kem != 0x20 {
			return tup(Value{K: KPtr}, g.w.prog.newError("unsupported KEM id")), true
		}
		if len(b) != 32 {
			return tup(Value{K: KPtr}, g.w.prog.newError("crypto/ecdh: invalid private key size")), true
		}
		s, ok := concBytes(b)
		if !ok {
			g.p.unsupported("symbolic HPKE private key bytes")
		}
		cell := &Value{K: KOpaque, R: &hpkeKey{priv: s}}
		return tup(mkPtr(cell), nilErr()), true
	}
	m[hpkePkg+".SetupReceipient"] = func(g *Goroutine, c *frame, fn *ssa.Function, a []Value) (Value, bool) {
		p := g.p
		kem := g.forceInt(a[0])
		kdf := g.forceInt(a[1])
		aead := g.forceInt(a[2])
		if a[3].R == nil {
			c.runtimePanic("invalid memory address or nil pointer dereference (nil HPKE private key)")
		}
		key, ok := a[3].ptr().R.(*hpkeKey)
		if !ok {
			p.unsupported("SetupReceipient: private key not produced by the model")
		}
		info := cloneVals(a[4].slice())
		enc := cloneVals(a[5].slice())
		p.hp().setups++
		fail := func(msg string) (Value, bool) {
			return tup(Value{K: KPtr}, g.w.prog.newError(msg)), true
		}
		if kem != 0x20 {
			return fail("unsupported KEM id")
		}
		if len(enc) != 32 {
			return fail("crypto/ecdh: invalid public key")
		}
		// low-order point model: the all-zero encapsulated key makes ECDH fail
		one := make32Zero()
		one[0] = mkInt(8, 1)
		lowOrder := c.bytesEq(enc, make32Zero())
		if !c.truth(lowOrder) {
			lowOrder = c.bytesEq(enc, one)
		}
		if c.truth(lowOrder) {
			return fail("crypto/ecdh: bad X25519 remote ECDH input: low order point")
		}
		if kdf != 1 {
			return fail("unsupported KDF id")
		}
		if aead != 1 && aead != 2 && aead != 3 {
			return fail("unsupported AEAD id")
		}
		r := &hpkeRecv{priv: key.priv, kdf: uint64(kdf), aead: uint64(aead), info: info, enc: enc}
		cell := &Value{K: KOpaque, R: r}
		return tup(mkPtr(cell), nilErr()), true
	}
	m["(*"+hpkePkg+".Receipient).Open"] = func(g *Goroutine, c *frame, fn *ssa.Function, a []Value) (Value, bool) {
		p := g.p
		if a[0].R == nil {
			c.runtimePanic("invalid memory address or nil pointer dereference (nil HPKE context)")
		}
		r, ok := a[0].ptr().R.(*hpkeRecv)
		if !ok {
			p.unsupported("Open: context not produced by the model")
		}
		aad := a[1].slice()
		ct := a[2].slice()
		h := p.hp()
		h.opens++
		for _, s := range h.seals {
			if s.s.priv != r.priv || s.s.kdf != r.kdf || s.s.aead != r.aead || s.seq != r.seq {
				continue
			}
			if len(s.s.info) != len(r.info) || len(s.s.enc) != len(r.enc) || len(s.aad) != len(aad) || len(s.ct) != len(ct) {
				continue
			}
			eq := c.and(c.and(c.bytesEq(s.s.info, r.info), c.bytesEq(s.s.enc, r.enc)), c.and(c.bytesEq(s.aad, aad), c.bytesEq(s.ct, ct)))
			if c.truth(eq) {
				r.seq++
				out := cloneVals(s.pt)
				if len(out) == 0 {
					// AEAD Open appends to a nil destination: an empty plaintext is a nil slice
					return tup(Value{K: KSlice}, nilErr()), true
				}
				return tup(mkSlice(out), nilErr()), true
			}
		}
		return tup(Value{K: KSlice}, g.w.prog.newError("chacha20poly1305: message authentication failed")), true
	}
}

func make32Zero() []Value {
	z := make([]Value, 32)
	for i := range z {
		z[i] = Value{K: KInt, W: 8}
	}
	return z
}

// freshByte creates a model-only symbolic byte (not part of the replay vector).
func (p *Path) freshByte(kind string) Value {
	t := p.newVar(8, kind)
	p.extraVars = append(p.extraVars, t)
	return Value{K: KInt, W: 8, R: t}
}

func (p *Path) freshBytes(n int, kind string) []Value {
	out := make([]Value, n)
	for i := range out {
		out[i] = p.freshByte(kind)
	}
	return out
}
