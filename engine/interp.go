package main

import (
	"fmt"
	"go/token"
	"go/types"
	"strings"
	"sync"

	"golang.org/x/tools/go/ssa"
)

// goPanic is a panic of the interpreted program.
type goPanic struct {
	val     Value // the panic value (an interface value)
	site    string
	msg     string
	runtime bool
	goexit  bool
}

type deferred struct {
	fn   Value
	args []Value
	tail *deferred
}

type fnInfo struct {
	idx   map[ssa.Value]int
	n     int
	intr  Intrinsic
	name  string
	skip  bool // package initializer of another package (lazy init)
	once  sync.Once
	nblk  int
}

type frame struct {
	g         *Goroutine
	fn        *ssa.Function
	info      *fnInfo
	caller    *frame
	env       []Value
	block     *ssa.BasicBlock
	prev      *ssa.BasicBlock
	defers    *deferred
	panicking bool
	recovered bool
	panicVal  *goPanic
	result    Value
	visits    []int32
	cur       ssa.Instruction
	running   bool
	depth     int
}

func (prog *Program) info(fn *ssa.Function) *fnInfo {
	if v, ok := prog.fnInfos.Load(fn); ok {
		return v.(*fnInfo)
	}
	fi := &fnInfo{idx: make(map[ssa.Value]int), name: fn.String()}
	n := 0
	for _, p := range fn.Params {
		fi.idx[p] = n
		n++
	}
	for _, fv := range fn.FreeVars {
		fi.idx[fv] = n
		n++
	}
	for _, b := range fn.Blocks {
		for _, ins := range b.Instrs {
			if v, ok := ins.(ssa.Value); ok {
				fi.idx[v] = n
				n++
			}
		}
	}
	fi.n = n
	fi.nblk = len(fn.Blocks)
	fi.intr = prog.lookupIntrinsic(fn)
	if fn.Synthetic == "package initializer" {
		fi.skip = true
	}
	v, _ := prog.fnInfos.LoadOrStore(fn, fi)
	return v.(*fnInfo)
}

func (fr *frame) get(v ssa.Value) Value {
	switch v := v.(type) {
	case *ssa.Const:
		return fr.g.w.constVal(v)
	case *ssa.Global:
		return mkPtr(fr.g.w.global(fr.g, v))
	case *ssa.Function:
		return Value{K: KFunc, R: v}
	case *ssa.Builtin:
		return Value{K: KFunc, R: v}
	case nil:
		return Value{}
	}
	i, ok := fr.info.idx[v]
	if !ok {
		panic(fmt.Sprintf("engine: no slot for %v (%T) in %s", v, v, fr.fn))
	}
	return fr.env[i]
}

func (fr *frame) set(v ssa.Value, x Value) {
	fr.env[fr.info.idx[v]] = x
}

// ---- calls

func (g *Goroutine) call(caller *frame, fnv Value, args []Value) Value {
	switch f := fnv.R.(type) {
	case *ssa.Function:
		return g.callSSA(caller, f, args, nil)
	case *Closure:
		return g.callSSA(caller, f.Fn, args, f.Env)
	case *Bound:
		return g.callSSA(caller, f.Fn, append([]Value{f.Recv}, args...), nil)
	case *ssa.Builtin:
		return g.callBuiltin(caller, f, args)
	case *NativeFn:
		return f.F(g, args)
	case nil:
		if caller != nil {
			caller.runtimePanic("invalid memory address or nil pointer dereference (call of nil func)")
		}
		panic("engine: call of nil function value")
	}
	panic(fmt.Sprintf("engine: cannot call %T", fnv.R))
}

const maxDepth = 400

func (g *Goroutine) callSSA(caller *frame, fn *ssa.Function, args []Value, env []Value) Value {
	info := g.w.prog.info(fn)
	if info.intr != nil {
		if r, handled := info.intr(g, caller, fn, args); handled {
			return r
		}
	}
	if info.skip {
		// another package's initializer reached from an init chain: initialised lazily instead.
		if g.w.initDepth > 0 {
			return Value{}
		}
	}
	if fn.Blocks == nil {
		g.p.unsupported("function without body: %s", fn.String())
	}
	fr := &frame{g: g, fn: fn, info: info, caller: caller}
	if caller != nil {
		fr.depth = caller.depth + 1
	}
	if fr.depth > maxDepth {
		g.p.unsupported("call depth > %d at %s", maxDepth, fn.String())
	}
	fr.env = make([]Value, info.n)
	copy(fr.env, args)
	copy(fr.env[len(fn.Params):], env)
	if len(args) != len(fn.Params) {
		panic(fmt.Sprintf("engine: %s called with %d args, wants %d", fn, len(args), len(fn.Params)))
	}
	fr.visits = make([]int32, info.nblk)
	fr.block = fn.Blocks[0]
	if g.w.trackFuncs {
		g.w.funcs[fn] = struct{}{}
	}
	fr.running = true
	for fr.running {
		fr.runBlocks()
	}
	return fr.result
}

// runBlocks executes until return; a Go-level panic is caught and turned into
// deferred-call processing as in the Go runtime.
func (fr *frame) runBlocks() {
	defer func() {
		if !fr.running {
			return
		}
		r := recover()
		if r == nil {
			return
		}
		gp, ok := r.(*goPanic)
		if !ok {
			panic(r) // engine abort or bug: keep unwinding
		}
		fr.panicking = true
		fr.panicVal = gp
		fr.runDefers()
		// recovered: continue at the Recover block, or return zero results
		if fr.fn.Recover != nil {
			fr.prev, fr.block = fr.block, fr.fn.Recover
			return
		}
		fr.result = fr.zeroResults()
		fr.running = false
	}()
	for {
		blk := fr.block
		fr.visits[blk.Index]++
		if int(fr.visits[blk.Index]) > fr.g.p.maxLoop {
			fr.g.p.maxLoop = int(fr.visits[blk.Index])
			if lim := fr.g.p.ex.opts.LoopLimit; lim > 0 && fr.g.p.maxLoop > lim {
				fr.cur = blk.Instrs[0]
				fr.g.p.loopLimit(fr)
			}
		}
		// phis first
		if fr.prev != nil {
			var vals [8]Value
			phis := vals[:0]
			var idx int = -1
			for i, pred := range blk.Preds {
				if pred == fr.prev {
					idx = i
					break
				}
			}
			n := 0
			for _, ins := range blk.Instrs {
				phi, ok := ins.(*ssa.Phi)
				if !ok {
					break
				}
				phis = append(phis, fr.get(phi.Edges[idx]))
				n++
			}
			for i := 0; i < n; i++ {
				fr.set(blk.Instrs[i].(*ssa.Phi), phis[i])
			}
		}
		p := fr.g.p
	instrs:
		for _, ins := range blk.Instrs {
			if _, ok := ins.(*ssa.Phi); ok {
				continue
			}
			fr.cur = ins
			fr.g.curFr = fr
			p.instr++
			if p.instr > p.fuel {
				p.fuelOut(fr)
			}
			switch fr.exec(ins) {
			case kNext:
			case kJump:
				break instrs
			case kReturn:
				fr.running = false
				return
			}
		}
	}
}

func (fr *frame) zeroResults() Value {
	res := fr.fn.Signature.Results()
	switch res.Len() {
	case 0:
		return Value{}
	case 1:
		return zero(res.At(0).Type())
	}
	return zero(res)
}

func (fr *frame) runDefers() {
	for fr.defers != nil {
		d := fr.defers
		fr.defers = d.tail
		fr.runDefer(d)
	}
	if fr.panicking {
		gp := fr.panicVal
		fr.running = false
		panic(gp)
	}
}

func (fr *frame) runDefer(d *deferred) {
	var ok bool
	defer func() {
		if ok {
			return
		}
		r := recover()
		gp, isGo := r.(*goPanic)
		if !isGo {
			panic(r)
		}
		// a deferred call panicked: it replaces the current panic
		fr.panicking = true
		fr.panicVal = gp
	}()
	fr.g.call(fr, d.fn, d.args)
	ok = true
}

type cont int

const (
	kNext cont = iota
	kJump
	kReturn
)

func (fr *frame) prepareCall(c *ssa.CallCommon) (Value, []Value) {
	v := fr.get(c.Value)
	var args []Value
	var fn Value
	if c.Method == nil {
		fn = v
		args = make([]Value, 0, len(c.Args))
	} else {
		ifc := v.iface()
		if ifc == nil {
			fr.runtimePanic("invalid memory address or nil pointer dereference (method call on nil interface)")
		}
		m := fr.g.w.prog.lookupMethod(ifc.T, c.Method)
		if m == nil {
			panic(fmt.Sprintf("engine: method %s not found on %v", c.Method, ifc.T))
		}
		fn = Value{K: KFunc, R: m}
		args = make([]Value, 0, len(c.Args)+1)
		args = append(args, ifc.V)
	}
	for _, a := range c.Args {
		args = append(args, fr.get(a))
	}
	return fn, args
}

func deref(t types.Type) types.Type {
	if p, ok := t.Underlying().(*types.Pointer); ok {
		return p.Elem()
	}
	panic(fmt.Sprintf("deref of %v", t))
}

func (fr *frame) load(p *Value) Value {
	if p == nil {
		fr.runtimePanic("invalid memory address or nil pointer dereference")
	}
	if r := fr.g.p.race; r != nil && fr.g.w.initDepth == 0 {
		r.accessDeep(fr.g, p, false, fr.fn.String())
	}
	return copyVal(*p)
}

func (fr *frame) store(p *Value, v Value) {
	if p == nil {
		fr.runtimePanic("invalid memory address or nil pointer dereference")
	}
	if r := fr.g.p.race; r != nil && fr.g.w.initDepth == 0 {
		r.accessDeep(fr.g, p, true, fr.fn.String())
	}
	*p = copyVal(v)
}

// intIndex forces an index to a concrete int after the Go bounds check.
func (fr *frame) intIndex(idx Value, n int, what string) int {
	return fr.intIndexT(idx, nil, n, what)
}

// intIndexT: idx of static type typ (nil: signed); unsigned narrow indices are zero-extended.
func (fr *frame) intIndexT(idx Value, typ types.Type, n int, what string) int {
	p := fr.g.p
	unsigned := false
	if typ != nil {
		if b, ok := typ.Underlying().(*types.Basic); ok && b.Info()&types.IsUnsigned != 0 {
			unsigned = true
		}
	}
	if idx.R == nil {
		i := sext64(idx.N, idx.W)
		if unsigned && idx.W < 64 {
			i = int64(idx.N & (1<<idx.W - 1))
		}
		if i < 0 || i >= int64(n) {
			fr.runtimePanic(fmt.Sprintf("index out of range [%d] with length %d", i, n))
		}
		return int(i)
	}
	t := idx.term()
	if t.w < 64 && uint64(n) >= 1<<t.w {
		if unsigned {
			return int(p.concretize(t)) // every value of the narrow unsigned type is in range
		}
		// signed narrow index: in range iff non-negative
		if !p.decideBool(p.ts.Sle(p.ts.Const(t.w, 0), t)) {
			fr.runtimePanic(fmt.Sprintf("index out of range [sym] with length %d", n))
		}
		return int(p.concretize(t))
	}
	inRange := p.ts.Ult(t, p.ts.Const(t.w, uint64(n)))
	if !p.decideBool(inRange) {
		fr.runtimePanic(fmt.Sprintf("index out of range [sym] with length %d", n))
	}
	return int(p.concretize(t))
}

// intLen forces a non-negative length/bound to a concrete int; ok=false when out of [0,max].
func (fr *frame) intBound(v Value, lo, hi int) (int, bool) {
	return fr.intBoundT(v, nil, lo, hi)
}

// intBoundT checks lo <= v <= hi for an integer operand of static type t (nil:
// signed) and concretises it; unsigned operands are compared as such.
func (fr *frame) intBoundT(v Value, typ types.Type, lo, hi int) (int, bool) {
	p := fr.g.p
	unsigned := false
	if typ != nil {
		if b, ok := typ.Underlying().(*types.Basic); ok && b.Info()&types.IsUnsigned != 0 {
			unsigned = true
		}
	}
	if v.R == nil {
		i := sext64(v.N, v.W)
		if unsigned {
			if v.W < 64 {
				i = int64(v.N & (1<<v.W - 1))
			} else if v.N > 1<<62 {
				return 0, false
			}
		}
		if i < int64(lo) || i > int64(hi) {
			return int(i), false
		}
		return int(i), true
	}
	t := v.term()
	var ok *Term
	if unsigned {
		ok = p.ts.And(p.ts.Ule(p.ts.Const(t.w, uint64(lo)), t), p.ts.Ule(t, p.ts.Const(t.w, uint64(hi))))
		if t.w < 64 && uint64(hi) >= 1<<t.w {
			ok = p.ts.Ule(p.ts.Const(t.w, uint64(lo)), t)
		}
	} else {
		ok = p.ts.And(p.ts.Sle(p.ts.Const(t.w, uint64(lo)), t), p.ts.Sle(t, p.ts.Const(t.w, uint64(hi))))
	}
	if !p.decideBool(ok) {
		return 0, false
	}
	if unsigned {
		return int(p.concretize(t)), true
	}
	return int(sext64(p.concretize(t), t.w)), true
}

func (fr *frame) exec(ins ssa.Instruction) cont {
	g := fr.g
	p := g.p
	switch ins := ins.(type) {
	case *ssa.DebugRef:
	case *ssa.UnOp:
		x := fr.get(ins.X)
		switch ins.Op {
		case token.MUL: // load
			fr.set(ins, fr.load(x.ptr()))
		case token.ARROW:
			v, ok := g.chanRecv(fr, x)
			if ins.CommaOk {
				fr.set(ins, mkAgg([]Value{v, mkBool(ok)}))
			} else {
				fr.set(ins, v)
			}
		default:
			fr.set(ins, fr.unop(ins.Op, ins.X.Type(), x))
		}
	case *ssa.BinOp:
		fr.set(ins, fr.binop(ins.Op, ins.X.Type(), fr.get(ins.X), fr.get(ins.Y)))
	case *ssa.Call:
		fn, args := fr.prepareCall(&ins.Call)
		fr.set(ins, g.call(fr, fn, args))
	case *ssa.ChangeInterface:
		fr.set(ins, fr.get(ins.X))
	case *ssa.ChangeType:
		fr.set(ins, fr.get(ins.X))
	case *ssa.Convert:
		fr.set(ins, fr.conv(ins.Type(), ins.X.Type(), fr.get(ins.X)))
	case *ssa.MultiConvert:
		fr.set(ins, fr.conv(ins.Type(), ins.X.Type(), fr.get(ins.X)))
	case *ssa.SliceToArrayPointer:
		x := fr.get(ins.X)
		n := int(deref(ins.Type()).Underlying().(*types.Array).Len())
		s := x.slice()
		if len(s) < n {
			fr.runtimePanic("cannot convert slice to array pointer: length too short")
		}
		if x.R == nil && n == 0 {
			fr.set(ins, Value{K: KPtr})
		} else {
			cell := &Value{K: KAgg, R: s[:n:n]}
			fr.set(ins, mkPtr(cell))
		}
	case *ssa.MakeInterface:
		fr.set(ins, mkIface(ins.X.Type(), fr.get(ins.X)))
	case *ssa.Extract:
		fr.set(ins, fr.get(ins.Tuple).agg()[ins.Index])
	case *ssa.Slice:
		fr.set(ins, fr.sliceOp(ins))
	case *ssa.Return:
		switch len(ins.Results) {
		case 0:
		case 1:
			fr.result = fr.get(ins.Results[0])
		default:
			res := make([]Value, len(ins.Results))
			for i, r := range ins.Results {
				res[i] = fr.get(r)
			}
			fr.result = mkAgg(res)
		}
		return kReturn
	case *ssa.RunDefers:
		fr.runDefers()
	case *ssa.Panic:
		x := fr.get(ins.X)
		panic(&goPanic{val: x, site: fr.stableSite(), msg: g.w.panicString(g, x)})
	case *ssa.Send:
		g.chanSend(fr, fr.get(ins.Chan), fr.get(ins.X))
	case *ssa.Store:
		fr.storeInstr(ins)
	case *ssa.If:
		succ := 1
		cv := fr.get(ins.Cond)
		if cv.R != nil && fr.tryMerge(ins, cv) {
			return kJump
		}
		if fr.truth(cv) {
			succ = 0
		}
		fr.prev, fr.block = fr.block, fr.block.Succs[succ]
		return kJump
	case *ssa.Jump:
		fr.prev, fr.block = fr.block, fr.block.Succs[0]
		return kJump
	case *ssa.Defer:
		fn, args := fr.prepareCall(&ins.Call)
		defers := &fr.defers
		if ins.DeferStack != nil {
			if into := fr.get(ins.DeferStack); into.K == KOpaque && into.R != nil {
				defers = into.R.(**deferred)
			}
		}
		*defers = &deferred{fn: fn, args: args, tail: *defers}
	case *ssa.Go:
		fn, args := fr.prepareCall(&ins.Call)
		g.spawn(fr, fn, args)
	case *ssa.MakeChan:
		n, ok := fr.intBoundT(fr.get(ins.Size), ins.Size.Type(), 0, 1<<20)
		if !ok {
			fr.runtimePanic("makechan: size out of range")
		}
		fr.set(ins, Value{K: KChan, R: newChan(n, ins.Type().Underlying().(*types.Chan).Elem())})
	case *ssa.Alloc:
		cell := new(Value)
		if ins.Heap {
			g.p.allocBytes += gcSizes.Sizeof(deref(ins.Type()))
		}
		*cell = zero(deref(ins.Type()))
		fr.set(ins, mkPtr(cell))
	case *ssa.MakeSlice:
		ln, ok := fr.intBoundT(fr.get(ins.Len), ins.Len.Type(), 0, 1<<24)
		if !ok {
			fr.runtimePanic("makeslice: len out of range")
		}
		cp, ok := fr.intBoundT(fr.get(ins.Cap), ins.Cap.Type(), ln, 1<<24)
		if !ok {
			fr.runtimePanic("makeslice: cap out of range")
		}
		et := ins.Type().Underlying().(*types.Slice).Elem()
		g.p.allocBytes += int64(cp) * gcSizes.Sizeof(et)
		fr.set(ins, mkSlice(makeSliceVals(et, ln, cp)))
	case *ssa.MakeMap:
		mt := ins.Type().Underlying().(*types.Map)
		fr.set(ins, Value{K: KMap, R: newMap(mt.Key(), mt.Elem())})
	case *ssa.Range:
		fr.set(ins, fr.rangeIter(fr.get(ins.X), ins.X.Type()))
	case *ssa.Next:
		it := fr.get(ins.Iter).R.(iterator)
		fr.set(ins, it.next(fr))
	case *ssa.FieldAddr:
		x := fr.get(ins.X).ptr()
		if x == nil {
			fr.runtimePanic("invalid memory address or nil pointer dereference")
		}
		fr.set(ins, mkPtr(&x.agg()[ins.Field]))
	case *ssa.Field:
		fr.set(ins, copyVal(fr.get(ins.X).agg()[ins.Field]))
	case *ssa.IndexAddr:
		x := fr.get(ins.X)
		idx := fr.get(ins.Index)
		switch x.K {
		case KSlice:
			s := x.slice()
			i := fr.intIndexT(idx, ins.Index.Type(), len(s), "slice")
			fr.set(ins, mkPtr(&s[i]))
		case KPtr:
			if x.R == nil {
				fr.runtimePanic("invalid memory address or nil pointer dereference")
			}
			a := x.ptr().agg()
			i := fr.intIndexT(idx, ins.Index.Type(), len(a), "array")
			fr.set(ins, mkPtr(&a[i]))
		default:
			panic("engine: IndexAddr on " + kindNames[x.K])
		}
	case *ssa.Index:
		x := fr.get(ins.X)
		idx := fr.get(ins.Index)
		switch x.K {
		case KAgg:
			a := x.agg()
			fr.set(ins, fr.indexRead(a, idx, ins.Index.Type()))
		case KStr:
			n := strLen(x)
			i := fr.intIndexT(idx, ins.Index.Type(), n, "string")
			fr.set(ins, strByte(x, i))
		default:
			panic("engine: Index on " + kindNames[x.K])
		}
	case *ssa.Lookup:
		fr.set(ins, fr.lookup(ins))
	case *ssa.MapUpdate:
		m := fr.get(ins.Map)
		if m.R == nil {
			panic(&goPanic{val: g.w.prog.runtimeError("assignment to entry in nil map"), site: fr.stableSite(), msg: "assignment to entry in nil map", runtime: true})
		}
		m.R.(*Map).set(fr, fr.get(ins.Key), copyVal(fr.get(ins.Value)))
	case *ssa.TypeAssert:
		fr.set(ins, fr.typeAssert(ins))
	case *ssa.MakeClosure:
		env := make([]Value, len(ins.Bindings))
		for i, b := range ins.Bindings {
			env[i] = fr.get(b)
		}
		fr.set(ins, Value{K: KFunc, R: &Closure{Fn: ins.Fn.(*ssa.Function), Env: env}})
	case *ssa.Select:
		fr.set(ins, g.selectOp(fr, ins))
	default:
		p.unsupported("instruction %T", ins)
	}
	return kNext
}

func (fr *frame) storeInstr(ins *ssa.Store) {
	addr := fr.get(ins.Addr)
	val := fr.get(ins.Val)
	if gl, ok := ins.Addr.(*ssa.Global); ok {
		fr.g.w.noteGlobalStore(fr.g, gl, addr.ptr())
	}
	fr.store(addr.ptr(), val)
}

func makeSliceVals(elem types.Type, ln, cp int) []Value {
	s := make([]Value, cp)
	z := zero(elem)
	if z.K == KAgg {
		for i := range s {
			s[i] = zero(elem)
		}
	} else {
		for i := range s {
			s[i] = z
		}
	}
	return s[:ln]
}

// indexRead reads a[idx]; a symbolic index into a small table becomes an ite-chain.
func (fr *frame) indexRead(a []Value, idx Value, typ types.Type) Value {
	p := fr.g.p
	if idx.R == nil {
		i := fr.intIndexT(idx, typ, len(a), "array")
		return copyVal(a[i])
	}
	t := idx.term()
	unsigned := false
	if typ != nil {
		if b, ok := typ.Underlying().(*types.Basic); ok && b.Info()&types.IsUnsigned != 0 {
			unsigned = true
		}
	}
	covers := t.w < 64 && uint64(len(a)) >= 1<<t.w // the table is at least as large as the index type's range
	if covers && !unsigned {
		i := fr.intIndexT(idx, typ, len(a), "array")
		return copyVal(a[i])
	}
	scalar := len(a) > 0 && len(a) <= 256
	for i := range a {
		if a[i].K != KInt || a[i].R != nil {
			scalar = false
			break
		}
	}
	if !scalar {
		i := fr.intIndexT(idx, typ, len(a), "array")
		return copyVal(a[i])
	}
	if !covers {
		inRange := p.ts.Ult(t, p.ts.Const(t.w, uint64(len(a))))
		if !p.decideBool(inRange) {
			fr.runtimePanic(fmt.Sprintf("index out of range [sym] with length %d", len(a)))
		}
	}
	w := a[0].W
	acc := p.ts.Const(w, a[len(a)-1].N)
	for i := len(a) - 2; i >= 0; i-- {
		acc = p.ts.Ite(p.ts.Eq(t, p.ts.Const(t.w, uint64(i))), p.ts.Const(w, a[i].N), acc)
	}
	return mkTermInt(acc)
}

func (fr *frame) sliceOp(ins *ssa.Slice) Value {
	x := fr.get(ins.X)
	var lo, hi, mx Value
	hasLo, hasHi, hasMax := ins.Low != nil, ins.High != nil, ins.Max != nil
	if hasLo {
		lo = fr.get(ins.Low)
	}
	if hasHi {
		hi = fr.get(ins.High)
	}
	if hasMax {
		mx = fr.get(ins.Max)
	}
	var ln, cp int
	var base []Value
	isStr := false
	switch x.K {
	case KStr:
		isStr = true
		ln = strLen(x)
		cp = ln
	case KSlice:
		base = x.slice()
		ln, cp = len(base), cap(base)
	case KPtr:
		if x.R == nil {
			fr.runtimePanic("invalid memory address or nil pointer dereference")
		}
		base = x.ptr().agg()
		ln, cp = len(base), len(base)
	default:
		panic("engine: slice of " + kindNames[x.K])
	}
	l, h, m := 0, ln, cp
	var ok bool
	// Go checks: 0 <= lo <= hi <= max <= cap
	if hasMax {
		if m, ok = fr.intBoundT(mx, ins.Max.Type(), 0, cp); !ok {
			fr.runtimePanic(fmt.Sprintf("slice bounds out of range [::%s] with capacity %d", sv(mx), cp))
		}
	}
	if hasHi {
		top := cp
		if isStr {
			top = ln
		}
		if hasMax {
			top = m
		}
		if h, ok = fr.intBoundT(hi, ins.High.Type(), 0, top); !ok {
			fr.runtimePanic(fmt.Sprintf("slice bounds out of range [:%s] with capacity %d", sv(hi), top))
		}
	}
	if hasLo {
		if l, ok = fr.intBoundT(lo, ins.Low.Type(), 0, h); !ok {
			fr.runtimePanic(fmt.Sprintf("slice bounds out of range [%s:%d]", sv(lo), h))
		}
	}
	if isStr {
		if s, ok := concStr(x); ok {
			return mkStr(s[l:h])
		}
		return mkStrBytes(strBytes(x)[l:h])
	}
	if x.K == KSlice && x.R == nil {
		return Value{K: KSlice}
	}
	return Value{K: KSlice, R: base[:cp][l:h:m]}
}

func (fr *frame) typeAssert(ins *ssa.TypeAssert) Value {
	x := fr.get(ins.X)
	ifc := x.iface()
	prog := fr.g.w.prog
	var ok bool
	var v Value
	if ifc != nil {
		if it, isIface := ins.AssertedType.Underlying().(*types.Interface); isIface {
			ok = prog.implements(ifc.T, it)
			if ok {
				v = x
			}
		} else {
			ok = types.Identical(ifc.T, ins.AssertedType)
			if ok {
				v = copyVal(ifc.V)
			}
		}
	}
	if !ok {
		if !ins.CommaOk {
			var have string
			if ifc == nil {
				have = "nil"
			} else {
				have = ifc.T.String()
			}
			msg := fmt.Sprintf("interface conversion: interface is %s, not %s", have, ins.AssertedType)
			panic(&goPanic{val: prog.runtimeError(msg), site: fr.stableSite(), msg: "runtime error: " + msg, runtime: true})
		}
		v = zero(ins.AssertedType)
	}
	if ins.CommaOk {
		return mkAgg([]Value{v, mkBool(ok)})
	}
	return v
}

// ---- program-level helpers

func (prog *Program) lookupMethod(t types.Type, m *types.Func) *ssa.Function {
	key := methKey{t, m}
	if v, ok := prog.methCache.Load(key); ok {
		return v.(*ssa.Function)
	}
	prog.methMu.Lock()
	f := prog.ssa.LookupMethod(t, m.Pkg(), m.Name())
	prog.methMu.Unlock()
	if f != nil {
		prog.methCache.Store(key, f)
	}
	return f
}

type methKey struct {
	t types.Type
	m *types.Func
}

func (prog *Program) implements(t types.Type, it *types.Interface) bool {
	key := implKey{t, it}
	if v, ok := prog.implCache.Load(key); ok {
		return v.(bool)
	}
	prog.methMu.Lock()
	m, _ := types.MissingMethod(t, it, true)
	prog.methMu.Unlock()
	r := m == nil
	prog.implCache.Store(key, r)
	return r
}

type implKey struct {
	t  types.Type
	it *types.Interface
}

func (w *Worker) panicString(g *Goroutine, v Value) string {
	ifc := v.iface()
	if ifc == nil {
		return "panic(nil)"
	}
	switch ifc.V.K {
	case KStr:
		if s, ok := concStr(ifc.V); ok {
			return s
		}
		return "<symbolic string>"
	}
	// error or Stringer: try Error()
	defer func() { recover() }()
	if m := w.prog.findMethod(ifc.T, "Error"); m != nil {
		r := g.callSSA(nil, m, []Value{ifc.V}, nil)
		if s, ok := concStr(r); ok {
			return ifc.T.String() + ": " + s
		}
	}
	return strings.TrimSpace(ifc.T.String())
}

func (prog *Program) findMethod(t types.Type, name string) *ssa.Function {
	prog.methMu.Lock()
	defer prog.methMu.Unlock()
	ms := prog.ssa.MethodSets.MethodSet(t)
	for i := 0; i < ms.Len(); i++ {
		if ms.At(i).Obj().Name() == name {
			return prog.ssa.MethodValue(ms.At(i))
		}
	}
	return nil
}

// stableInstr describes an instruction by kind and constant operands only.
func stableInstr(ins ssa.Instruction) string {
	switch i := ins.(type) {
	case nil:
		return "?"
	case *ssa.IndexAddr:
		if c, ok := i.Index.(*ssa.Const); ok {
			return "IndexAddr[" + c.Value.String() + "]"
		}
		return "IndexAddr[var]"
	case *ssa.Index:
		if c, ok := i.Index.(*ssa.Const); ok {
			return "Index[" + c.Value.String() + "]"
		}
		return "Index[var]"
	case *ssa.Slice:
		return "Slice"
	case *ssa.TypeAssert:
		return "TypeAssert(" + i.AssertedType.String() + ")"
	case *ssa.Call:
		if f := i.Call.StaticCallee(); f != nil {
			return "Call(" + f.String() + ")"
		}
		if i.Call.Method != nil {
			return "Invoke(" + i.Call.Method.Name() + ")"
		}
		if b, ok := i.Call.Value.(*ssa.Builtin); ok {
			return "Builtin(" + b.Name() + ")"
		}
		return "Call(dynamic)"
	case *ssa.Panic:
		return "Panic"
	case *ssa.UnOp:
		return "UnOp(" + i.Op.String() + ")"
	case *ssa.BinOp:
		return "BinOp(" + i.Op.String() + ")"
	case *ssa.FieldAddr:
		return fmt.Sprintf("FieldAddr(%d)", i.Field)
	case *ssa.MapUpdate:
		return "MapUpdate"
	case *ssa.MakeSlice:
		return "MakeSlice"
	}
	return strings.TrimPrefix(fmt.Sprintf("%T", ins), "*ssa.")
}


// ---- if-conversion of triangles
//
// "if c { x = v }" (one side block that only computes pure values and stores
// scalars, falling through to the other successor) is executed without forking:
// stores become *p = ite(c, v, *p) and phis of the join become ite(c, a, b).
// This removes the 2^n blow-up of flag-setting loops over symbolic input.

type mergeInfo struct {
	ok   bool
	side int // which successor is the side block (0: then, 1: else)
}

func isScalarType(t types.Type) bool {
	b, ok := t.Underlying().(*types.Basic)
	if !ok {
		return false
	}
	return b.Info()&(types.IsInteger|types.IsBoolean) != 0
}

func (prog *Program) mergeable(ins *ssa.If) mergeInfo {
	if v, ok := prog.mergeCache.Load(ins); ok {
		return v.(mergeInfo)
	}
	blk := ins.Block()
	res := mergeInfo{}
	for side := 0; side < 2; side++ {
		sb := blk.Succs[side]
		join := blk.Succs[1-side]
		if len(sb.Preds) != 1 || len(sb.Succs) != 1 || sb.Succs[0] != join || sb == join || sb == blk {
			continue
		}
		good := true
		for _, in := range sb.Instrs {
			switch in := in.(type) {
			case *ssa.Store:
				if !isScalarType(in.Val.Type()) {
					good = false
				}
			case *ssa.FieldAddr, *ssa.Jump, *ssa.DebugRef, *ssa.ChangeType:
			case *ssa.BinOp:
				switch in.Op {
				case token.QUO, token.REM, token.SHL, token.SHR:
					good = false
				}
				if !isScalarType(in.X.Type()) {
					good = false
				}
			case *ssa.UnOp:
				if in.Op == token.MUL || in.Op == token.ARROW {
					good = false
				}
			case *ssa.Convert:
				if !isScalarType(in.Type()) || !isScalarType(in.X.Type()) {
					good = false
				}
			default:
				good = false
			}
		}
		// every phi of the join must be scalar
		for _, in := range join.Instrs {
			phi, ok := in.(*ssa.Phi)
			if !ok {
				break
			}
			if !isScalarType(phi.Type()) {
				good = false
			}
		}
		if good {
			res = mergeInfo{ok: true, side: side}
			break
		}
	}
	prog.mergeCache.Store(ins, res)
	return res
}

func (fr *frame) tryMerge(ins *ssa.If, cv Value) bool {
	p := fr.g.p
	t := cv.term()
	if _, ok := p.decided[t]; ok {
		return false
	}
	mi := fr.g.w.prog.mergeable(ins)
	if !mi.ok {
		return false
	}
	blk := ins.Block()
	sb := blk.Succs[mi.side]
	join := blk.Succs[1-mi.side]
	cond := t
	if mi.side == 1 {
		cond = p.ts.Not(t)
	}
	// evaluate the side block; FieldAddr on nil would panic: bail out before any effect
	for _, in := range sb.Instrs {
		if fa, ok := in.(*ssa.FieldAddr); ok {
			// operands defined in the side block itself are FieldAddr results (non-nil)
			if _, local := fr.info.idx[fa.X]; local {
				if x := fr.get(fa.X); x.K != KPtr || x.R == nil {
					return false
				}
			}
		}
	}
	ite := func(a, b Value) Value { // cond ? a : b
		if a.K == KBool {
			return p.norm(mkTermBool(p.ts.Ite(cond, p.ts.toTerm(a), p.ts.toTerm(b))))
		}
		return p.norm(mkTermInt(p.ts.Ite(cond, p.ts.toTerm(a), p.ts.toTerm(b))))
	}
	for _, in := range sb.Instrs {
		fr.cur = in
		p.instr++
		switch in := in.(type) {
		case *ssa.Store:
			addr := fr.get(in.Addr).ptr()
			if addr == nil {
				fr.runtimePanic("invalid memory address or nil pointer dereference")
			}
			if gl, ok := in.Addr.(*ssa.Global); ok {
				fr.g.w.noteGlobalStore(fr.g, gl, addr)
			}
			old := *addr
			nv := fr.get(in.Val)
			if (old.K != KInt && old.K != KBool) || old.K != nv.K {
				panic("engine: tryMerge store of non-scalar")
			}
			*addr = ite(nv, old)
		case *ssa.Jump, *ssa.DebugRef:
		default:
			fr.exec(in)
		}
	}
	// phis of the join
	var idxIf, idxSide = -1, -1
	for i, pred := range join.Preds {
		if pred == blk {
			idxIf = i
		}
		if pred == sb {
			idxSide = i
		}
	}
	var vals []Value
	var phis []*ssa.Phi
	for _, in := range join.Instrs {
		phi, ok := in.(*ssa.Phi)
		if !ok {
			break
		}
		a := fr.get(phi.Edges[idxSide])
		b := fr.get(phi.Edges[idxIf])
		vals = append(vals, ite(a, b))
		phis = append(phis, phi)
	}
	for i, phi := range phis {
		fr.set(phi, vals[i])
	}
	fr.prev, fr.block = nil, join
	p.merges++
	return true
}

func sv(v Value) string {
	if v.K == KInt && v.R == nil {
		return fmt.Sprintf("%d", sext64(v.N, v.W))
	}
	return "sym"
}
