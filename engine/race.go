package main

// Happens-before race monitor (vector clocks over the scheduling points of the
// concurrency layer).  Enabled per path by the harness (vRaceDetect(true)).
// Two conflicting accesses (at least one write) to the same cell by different
// goroutines that are not ordered by happens-before are a data race, whatever
// order the cooperative scheduler happened to run them in.

import (
	"fmt"
	"os"
	"strings"
)

type vclock []uint32

func (v vclock) get(i int) uint32 {
	if i < len(v) {
		return v[i]
	}
	return 0
}

func (v *vclock) set(i int, x uint32) {
	for len(*v) <= i {
		*v = append(*v, 0)
	}
	(*v)[i] = x
}

func (v *vclock) join(o vclock) {
	for i, x := range o {
		if x > v.get(i) {
			v.set(i, x)
		}
	}
}

type raceAccess struct {
	gid  int
	clk  uint32
	site string
}

type raceShadow struct {
	w     *raceAccess
	reads []raceAccess
}

type raceMon struct {
	clocks map[int]*vclock
	objs   map[any]*vclock
	shadow map[*Value]*raceShadow
	seen   map[string]bool
	found  []string
}

func newRaceMon() *raceMon {
	return &raceMon{clocks: map[int]*vclock{}, objs: map[any]*vclock{}, shadow: map[*Value]*raceShadow{}, seen: map[string]bool{}}
}

func (r *raceMon) clock(g *Goroutine) *vclock {
	c, ok := r.clocks[g.id]
	if !ok {
		c = &vclock{}
		c.set(g.id, 1)
		r.clocks[g.id] = c
	}
	return c
}

func (r *raceMon) tick(g *Goroutine) {
	c := r.clock(g)
	c.set(g.id, c.get(g.id)+1)
}

// release publishes g's history on obj; acquire imports it.
func (r *raceMon) release(g *Goroutine, obj any) {
	o, ok := r.objs[obj]
	if !ok {
		o = &vclock{}
		r.objs[obj] = o
	}
	o.join(*r.clock(g))
	r.tick(g)
}

func (r *raceMon) acquire(g *Goroutine, obj any) {
	if o, ok := r.objs[obj]; ok {
		r.clock(g).join(*o)
	}
}

func (r *raceMon) fork(parent, child *Goroutine) {
	c := &vclock{}
	c.join(*r.clock(parent))
	c.set(child.id, 1)
	r.clocks[child.id] = c
	r.tick(parent)
}

func (r *raceMon) ordered(a *raceAccess, g *Goroutine) bool {
	return a.gid == g.id || a.clk <= r.clock(g).get(a.gid)
}

func (r *raceMon) access(g *Goroutine, cell *Value, write bool, site string) {
	if cell == nil {
		return
	}
	if os.Getenv("RACEDBG") != "" && strings.Contains(site, os.Getenv("RACEDBG")) {
		fmt.Fprintf(os.Stderr, "ACCESS g%d write=%v cell=%p site=%s clk=%v\n", g.id, write, cell, site, *r.clock(g))
	}
	sh, ok := r.shadow[cell]
	if !ok {
		sh = &raceShadow{}
		r.shadow[cell] = sh
	}
	me := raceAccess{gid: g.id, clk: r.clock(g).get(g.id), site: site}
	report := func(other *raceAccess, kind string) {
		key := other.site + " <-> " + site
		if !r.seen[key] {
			r.seen[key] = true
			r.found = append(r.found, fmt.Sprintf("%s: g%d at %s / g%d at %s", kind, other.gid, other.site, g.id, site))
		}
	}
	if sh.w != nil && !r.ordered(sh.w, g) {
		if write {
			report(sh.w, "write-write")
		} else {
			report(sh.w, "write-read")
		}
	}
	if write {
		for i := range sh.reads {
			if !r.ordered(&sh.reads[i], g) {
				report(&sh.reads[i], "read-write")
			}
		}
		sh.w = &me
		sh.reads = sh.reads[:0]
	} else {
		for i := range sh.reads {
			if sh.reads[i].gid == g.id {
				sh.reads[i] = me
				return
			}
		}
		sh.reads = append(sh.reads, me)
	}
}

// accessAgg marks a read/write of an aggregate cell and everything nested in it.
func (r *raceMon) accessDeep(g *Goroutine, cell *Value, write bool, site string) {
	r.access(g, cell, write, site)
	if cell.K == KAgg {
		a := cell.R.([]Value)
		for i := range a {
			r.accessDeep(g, &a[i], write, site)
		}
	}
}
