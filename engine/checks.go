package main

// Registry of harnesses per property.

var checks = map[string][]HarnessSpec{
	"C02": {
		{Name: "verifC02Honest", Pkg: ".", Labels: []string{"accepted"}},
		{Name: "verifC02Flip", Pkg: ".", Labels: []string{"ran"}},
		{Name: "verifC02Subst", Pkg: ".", Labels: []string{"ran"}},
		{Name: "verifC02UnlistedSuite", Pkg: ".", Labels: []string{"listed", "unlisted"}},
		{Name: "verifC02WrongIDSealed", Pkg: ".", Labels: []string{"wrong-id"}},
	},
	"C03": {
		{Name: "verifC03Reconstruct", Pkg: ".", Labels: []string{"accepted", "checked"}},
		{Name: "verifC03Interpreted", Pkg: ".", Labels: []string{"interpreted"}},
	},
	"C04": {
		{Name: "verifC04Rules", Pkg: ".", Labels: []string{"ran"}},
		{Name: "verifC04RetryRules", Pkg: ".", Labels: []string{"retry-ran"}},
		{Name: "verifC04AlertConsistency", Pkg: ".", Labels: []string{"ok", "refused"}},
	},
	"C05": {
		{Name: "verifC05Raw", Pkg: ".", Labels: []string{"passed", "refused"}},
		{Name: "verifC05Ext", Pkg: ".", Labels: []string{"passed", "refused", "valid"}},
		{Name: "verifC05Structured", Pkg: ".", Labels: []string{"passed", "valid"}},
		{Name: "verifC05Later", Pkg: ".", Labels: []string{"later"}},
		{Name: "verifC05SealedNoTLS13", Pkg: ".", Labels: []string{"no-tls13"}},
		{Name: "verifC05TwoConns", Pkg: ".", Labels: []string{"two-conns"}},
	},
	"C06": {
		{Name: "verifC06History", Pkg: ".", Labels: []string{"setup", "retry-ok", "retry-abort", "done"}},
		{Name: "verifC06Concurrent", NoisyNative: true, Pkg: ".", Labels: []string{"concurrent-retry"}},
		{Name: "verifC06SecondHRR", Pkg: ".", Labels: []string{"second-hrr"}},
		{Name: "verifC04RetryRules", Pkg: ".", Labels: []string{"retry-ran"}}, // every ill-formed retried hello (also registered under C04)
	},
	"C07": {
		{Name: "verifC07ReadPipe", Pkg: ".", Labels: []string{"drained"}},
		{Name: "verifC07WritePipe", Pkg: ".", Labels: []string{"written", "write-failed"}},
		{Name: "verifC07WriteStep", Pkg: ".", Labels: []string{"step"}},
		{Name: "verifC07LegalLengths", Pkg: ".", Labels: []string{"read", "write"}},
		{Name: "verifC07EndToEnd", Pkg: ".", Labels: []string{"end-to-end"}},
	},
	"C08": {
		{Name: "verifC08Raw", NoisyNative: true, Pkg: ".", Labels: []string{"newconn-ok", "newconn-error", "reads-done"}},
		{Name: "verifC08Ext", NoisyNative: true, Pkg: ".", Labels: []string{"newconn-ok", "newconn-error"}},
		{Name: "verifC08ReadArmed", Pkg: ".", Labels: []string{"armed"}},
		{Name: "verifC08WriteArmed", Pkg: ".", Labels: []string{"writes-done"}},
		{Name: "verifC08AroundECH", Pkg: ".", Labels: []string{"newconn-ok", "newconn-error"}},
		{Name: "verifC10Stall", NoisyNative: true, Pkg: ".", Labels: []string{"stall-returned"}},
		{Name: "verifC08InnerRaw", NoisyNative: true, Pkg: ".", Labels: []string{"inner-refused", "inner-ok"}},
		{Name: "verifC08RetryExt", Pkg: ".", Labels: []string{"retry-refused"}},
		{Name: "verifC08ServerHello", Pkg: ".", Labels: []string{"sh-refused", "sh-passed"}},
		{Name: "verifC04RetryRules", Pkg: ".", Labels: []string{"retry-ran"}}, // structured ill-formed retried hellos: no panic (also registered under C04 and C06)
	},
	"C09": {
		{Name: "verifC09KeySets", Pkg: ".", Labels: []string{"ran", "accepted", "passthrough"}},
		{Name: "verifC09Retry", Pkg: ".", Labels: []string{"retried"}},
		{Name: "verifC09ManyKeys", Pkg: ".", Labels: []string{"many-keys"}},
	},
	"C10": {
		{Name: "verifC10AfterReturn", NoisyNative: true, Pkg: ".", Labels: []string{"after-return"}},
		{Name: "verifC10WhileBlocked", NoisyNative: true, Pkg: ".", Labels: []string{"cancelled", "ok"}},
		{Name: "verifC10Timeout", NoisyNative: true, Pkg: ".", Labels: []string{"timeout-after-return", "timeout-stalled"}},
		{Name: "verifC10Accepted", NoisyNative: true, Pkg: ".", Labels: []string{"accepted-after-cancel"}},
		{Name: "verifC10CancelledAtEntry", NoisyNative: true, Pkg: ".", Labels: []string{"entry-ok"}},
	},
	"C11": {
		{Name: "verifC11Encode", Pkg: ".", Labels: []string{"roundtrip"}},
		{Name: "verifC11Refuse", Pkg: ".", Labels: []string{"refused"}},
		{Name: "verifC11List", Pkg: ".", Labels: []string{"list"}},
		{Name: "verifC11NewConfig", Pkg: ".", Labels: []string{"newconfig"}},
		{Name: "verifC11ParseRaw", Pkg: ".", Labels: []string{"raw", "raw-valid"}},
		{Name: "verifC11TLSClient", Pkg: ".", Labels: []string{"tls-client"}},
		{Name: "verifC11TLSServer", Pkg: ".", Labels: []string{"tls-server"}},
		{Name: "verifC11Oversized", Pkg: ".", Labels: []string{"oversized", "large"}, Quick: TierOpts{LoopLimit: 70000}, Thorough: TierOpts{LoopLimit: 70000}},
	},
	"C12": {
		{Name: "verifC12Raw", Pkg: "./dns", Labels: []string{"decoded", "rejected"}, Quick: TierOpts{LoopLimit: 300}, Thorough: TierOpts{LoopLimit: 300}},
		{Name: "verifC12Names", Pkg: "./dns", Labels: []string{"decoded", "rejected"}, Quick: TierOpts{LoopLimit: 300}, Thorough: TierOpts{LoopLimit: 300}},
		{Name: "verifC12RData", Pkg: "./dns", Labels: []string{"decoded", "rejected"}, Quick: TierOpts{LoopLimit: 300}, Thorough: TierOpts{LoopLimit: 300}},
		{Name: "verifC12Resolve", Pkg: ".", Labels: []string{"resolved-or-error"}},
		{Name: "verifC12Cycles", Pkg: "./dns", Labels: []string{"rejected"}, Quick: TierOpts{LoopLimit: 300}, Thorough: TierOpts{LoopLimit: 300}},
		{Name: "verifC12Params", Pkg: "./dns", Labels: []string{"decoded", "rejected"}, Quick: TierOpts{LoopLimit: 300}, Thorough: TierOpts{LoopLimit: 300}},
		{Name: "verifC12Memory", NoisyNative: true, Pkg: "./dns", Labels: []string{"rejected"}, Quick: TierOpts{LoopLimit: 300}, Thorough: TierOpts{LoopLimit: 300}},
		{Name: "verifC12FarPointers", Pkg: "./dns", Labels: []string{"rejected"}, Quick: TierOpts{LoopLimit: 600}, Thorough: TierOpts{LoopLimit: 600}},
	},
	"C13": {
		{Name: "verifC13RoundTrip", Pkg: "./dns", Labels: []string{"roundtrip"}},
		{Name: "verifC13Compressed", Pkg: "./dns", Labels: []string{"compressed"}},
		{Name: "verifC13RefDecode", Pkg: "./dns", Labels: []string{"refdecoded"}},
		{Name: "verifC13Exact", Pkg: "./dns", Labels: []string{"exact"}},
		{Name: "verifC13RefEncode", Pkg: "./dns", Labels: []string{"refencoded"}},
		{Name: "verifC13MaxName", Pkg: "./dns", Labels: []string{"maxname"}, Quick: TierOpts{LoopLimit: 600}, Thorough: TierOpts{LoopLimit: 600}},
		{Name: "verifC13Chain", Pkg: "./dns", Labels: []string{"chain"}},
		{Name: "verifC13Padding", Pkg: "./dns", Labels: []string{"padded"}},
		{Name: "verifC13ResponseCode", Pkg: "./dns", Labels: []string{"rcode"}},
	},
	"C14": {
		{Name: "verifC14Names", Pkg: ".", Labels: []string{"names"}},
		{Name: "verifC14Literals", Pkg: ".", Labels: []string{"literals"}},
		{Name: "verifC14LongNames", Pkg: ".", Labels: []string{"long-refused", "long-ok"}, Quick: TierOpts{LoopLimit: 600}, Thorough: TierOpts{LoopLimit: 600}},
		{Name: "verifC14Loops", Pkg: ".", Labels: []string{"loops"}},
		{Name: "verifC14BadForms", Pkg: ".", Labels: []string{"bad-refused", "good-form"}},
		{Name: "verifC14HostileTargets", Pkg: ".", Labels: []string{"hostile-refused", "hostile-ignored"}, Quick: TierOpts{LoopLimit: 700}, Thorough: TierOpts{LoopLimit: 700}},
		{Name: "verifC14Zone", Pkg: ".", Labels: []string{"resolved", "error"}},
		{Name: "verifC14Chain", Pkg: ".", Labels: []string{"chain"}},
	},
	"C15": {
		{Name: "verifC15Targets", Pkg: ".", Labels: []string{"checked"}},
	},
	"C16": {
		{Name: "verifC16MinTTL", Pkg: ".", Labels: []string{"minttl"}},
		{Name: "verifC16Expiry", Pkg: ".", Labels: []string{"hit", "miss"}},
		{Name: "verifC16Cache", Pkg: ".", Labels: []string{"history", "cache-hit"}},
		{Name: "verifC16Repeat", Pkg: ".", Labels: []string{"repeat"}},
		{Name: "verifC16Keys", Pkg: ".", Labels: []string{"keys"}},
		{Name: "verifC16Constructors", Pkg: ".", Labels: []string{"constructors"}},
		{Name: "verifC16ZeroTTLConcurrent", NoisyNative: true, Pkg: ".", Labels: []string{"zero-ttl"}},
		{Name: "verifC16FailureBesideSuccess", NoisyNative: true, Pkg: ".", Labels: []string{"failure-beside-success"}},
		{Name: "verifC16Race", NoisyNative: true, Pkg: ".", Labels: []string{"race-checked"}, Race: true},
	},
	"C17": {
		{Name: "verifC17Dial", NoisyNative: true, Pkg: ".", Labels: []string{"dialed", "connected", "failed"}},
		{Name: "verifC17ResolverPath", NoisyNative: true, Pkg: ".", Labels: []string{"resolver-path"}},
		{Name: "verifC17AddressForms", NoisyNative: true, Pkg: ".", Labels: []string{"address-forms"}},
	},
	"C18": {
		{Name: "verifC18Dial", NoisyNative: true, Pkg: ".", Labels: []string{"returned", "connected", "all-failed", "quiesced"}},
		{Name: "verifC18Defaults", NoisyNative: true, Pkg: ".", Labels: []string{"defaults"}},
		{Name: "verifC18Schedules", NoisyNative: true, Pkg: ".", Labels: []string{"schedules"}},
	},
	"C19": {
		{Name: "verifC19RoundTrip", NoisyNative: true, Pkg: ".", Labels: []string{"roundtrip", "h3", "https", "plaintext-refused"}},
		{Name: "verifC19PoolKeys", NoisyNative: true, Pkg: ".", Labels: []string{"keys"}},
	},
	"C20": {
		{Name: "verifC20Publish", Mod: "publish", Pkg: ".", Labels: []string{"published", "republished"}},
	},
	"SMOKE": {
		{Name: "verifSmoke", Pkg: "."},
	},
}

var commonAssumptions = []string{
	"engine: own SSA-level symbolic executor (gosym); lengths/offsets concretised by forking, contents symbolic bit-vectors; soundness rests on witness replay against the native build and native confirmation of every reported violation",
	"package initialisers run lazily per package; map iteration order = insertion order; append growth mirrors runtime.growslice for amd64",
	"fmt/log formatting is modelled (message text is not part of any property); errors.Is/As walk real Unwrap chains",
}

func assumptionsFor(prop string) []string {
	out := append([]string{}, commonAssumptions...)
	out = append(out, propAssumptions[prop]...)
	return out
}

var hpkeAssumption = "ideal HPKE (engine model of internal/hpke ParseHPKEPrivateKey/SetupReceipient/Open): Open succeeds exactly on (key, kdf, aead, info, enc, seq, aad, ciphertext) tuples registered by an honest harness-side seal; SetupReceipient fails iff kem!=0x20, kdf!=1, aead not in {1,2,3}, len(enc)!=32 or enc is the low-order point u=0/u=1; honest enc/ciphertext bytes are fresh symbolic bytes; native replay uses the real hpke package"
var transportAssumption = "transport: harness net.Conn (ordinary Go, interpreted) delivering a symbolic client stream, recording writes/Close/SetDeadline, optional chunking, cut and injected errors"

var propAssumptions = map[string][]string{
	"C02": {hpkeAssumption, transportAssumption, "bounds: one honest tuple shape (SNI, supported_versions, 2 opaque extensions around the ECH extension, 2 suites); single-byte modifications at every handshake-message offset with every non-zero xor mask; length bytes: off-by-one in the quick tier, shrink-to-anything/grow<=3 in the thorough tier; paths deriving more than 1 length from ciphertext bytes are cut and counted (cut_by_stated_bound)", "outside: the cryptographic assumption itself; hellos of other shapes; multi-byte modifications"},
	"C03": {hpkeAssumption, transportAssumption, "bounds: <=3 free outer extensions (types 51,10,13,GREASE,45 with 0..2 data bytes), ECH at every position among them, marker at every position of a 5-extension inner list referencing every order-preserving subsequence, padding {0,2}, session id {0,2} bytes, caller buffer sizes {1,201}", "outside: hellos near the 16 KiB record limit; duplicate outer extension types"},
	"C04": {hpkeAssumption, transportAssumption, "bounds: 14 rule violations (R1..R8f,R10), each applied to one valid hello shape with symbolic contents/positions; R4 in 4 shapes, R5 in 2, R6 with 1- and 2-entry version lists, R8a in 4 malformations; outer-only rules (R1,R2,R3,R10) also on hellos offering TLS 1.2 only / no versions, and R1,R3,R10 at a keyless server; 14 ill-formed retried-hello variants (verifC04RetryRules); single faults only", "outside: multi-fault combinations; the alert class of truncations is checked for consistency with the returned error (verifC04AlertConsistency), not against an independent classification"},
	"C05": {transportAssumption, "oracle: strict RFC 8446 4.1.2 recogniser and SNI/ALPN extractor written in the harness", "bounds: raw handshake message of 40..47 bytes (thorough ..51); pinned fixed part with a raw extension block of <=12 (18) bytes or none; structured hellos with GREASE/unknown-id/undecryptable ECH, pre-1.3 version lists, unknown extensions", "independent TLS stack: crypto/tls's server (interpreted from its SSA; natively the real one) is fed the forwarded bytes and its ClientHelloInfo.ServerName/SupportedProtos are compared with Conn.ServerName/ALPNProtos wherever it accepts the hello (quick: verifC05Ext; thorough: also verifC05Structured)", "later records (verifC05Later): 3 records in either direction after a presented-but-not-accepted ECH", "outside: fragmented ClientHellos; longer later streams (C07)", "verifC05TwoConns: two connections in one process, the first drained after the second was set up (sync.Pool objects are recycled most-recent-first in the engine); verifC05Later: 5 kinds of first hello, optional client record already pending behind the hello, Close at the end"},
	"C06": {hpkeAssumption, transportAssumption, "oracle: reference monitor of the statement in the harness (HRR seen, read/write sides live)", "bounds: histories of 3 (thorough 4) records after the accepted first hello, 15 second-hello variants (incl. key_share compressed via ech_outer_extensions) and one further hello, backend records split over two Write calls at {5,(1,6)}, HelloRetryRequest+change_cipher_spec in one Write, ServerHello randoms one byte from the HelloRetryRequest value at positions {0,31,(13,7,24)}", "verifC06Concurrent: reader blocked in the transport before the HelloRetryRequest is written, every schedule at synchronisation points", "outside: longer histories; ServerHello fragmented across records", "verifC06SecondHRR: fixed script HRR, retried hello, second HRR (alone or behind a change_cipher_spec record), third hello; alert / unknown record types in the history alphabet; 19 second-hello variants (quick tier: one per outcome class in the history, all in verifC04RetryRules, which is registered here too)"},
	"C07": {transportAssumption, "bounds: state after an accepted hello constructed directly (inspection armed); <=1 (2) client records with symbolic type, body <=2 bytes or boundary lengths 16384/16385/65535, cut anywhere; transport chunk size in {1,2,3,all} and caller buffer in {1,3,64} fixed per run; backend stream of <=2 records written in pieces of {1,2,5,6,all}; one-step inductive Write from any invariant-satisfying state with <=7+6 bytes; legal lengths up to 2^14+256 with zero bodies", "outside: bodies whose contents are inspected beyond byte 5 (none are); per-call varying chunk sizes"},
	"C08": {hpkeAssumption, transportAssumption, "attacker-sealed inner plaintext (verifC08InnerRaw): raw <=42 (44) bytes or pinned fixed part with a raw inner extension block <=13 (16) bytes; deadline clause (verifC10Stall): client stalled at offsets {0,3,5,len-1} on a transport whose Write blocks, all scheduling-point interleavings", "bounds: NewConn on a raw record of <=48 (52) symbolic bytes with/without a key; pinned fixed part + raw extension block <=16 (24) bytes; structured ECH extension with raw bytes before or after; direct-state Read over <=2 (3) records and Write of <=10 (16) bytes in 3 calls", "verifC08RetryExt: hostile retried hello (raw extension block <=12 (16) bytes, or authentic seal over <=40 (42) raw plaintext bytes); verifC08ServerHello: <=10 (14) raw bytes after the ServerHello random, split writes", "outside: heap growth in bytes (slice lengths are bounded instead); the deadline clause is C10's harness"},
	"C09": {hpkeAssumption, transportAssumption, "bounds: key lists of 1..3 (4) valid keys, symbolic one-byte ids (collisions chosen by the solver), suite subsets, target at every position or absent; other keys may reuse the target key pair under another config", "retried hello (verifC09Retry): <=2 keys, colliding key before or after the target"},
	"C10": {transportAssumption, "concurrency layer: goroutines are coroutines; scheduling points are go/channel/select/sync/timer operations and harness yields; every choice among runnable goroutines and among ready select cases is a fork; no pre-emption between ordinary instructions", "native replay of schedule-dependent counterexamples is retried up to 20 times", "verifC10Timeout: context.WithTimeout(200 ms) over a transport that applies deadline values in virtual time", "verifC10Accepted: inspected connection (accepted ECH), cancellation after return, then change_cipher_spec / HelloRetryRequest / retried hello; verifC10CancelledAtEntry: context cancelled before NewConn with the hello buffered"},
	"C11": {"oracle: draft section 4 layout written out in the harness", "ecdh X25519 key generation is stubbed with fresh symbolic key bytes", "bounds: ids/KEMs/suites fully symbolic, key lengths {0,1,4,32}, <=3 suites, public names of 1,2,3,8,239,240,254,255 bytes (0 and 256 refused), lists of 0..2 (3) configs, raw parser input <=20 (26) bytes", "second oracle: crypto/tls (interpreted from its SSA; natively the real one) parses the config list as a client and accepts config+key as EncryptedClientHelloKeys as a server, for configs from ConfigSpec.Bytes and from NewConfig; only configs crypto/tls can use (KEM 0x20, 32-byte key, two-label DNS public name)", "crypto/internal/hpke.SetupSender/SetupReceipient and X25519 arithmetic are stubbed (the oracle is used as a parser)", "outside: real handshakes (C01)", "verifC11Oversized: 200/220/260 concrete configs of 302 bytes"},
	"C12": {"bounds: whole message symbolic with <=4 (7) bytes after the header (ID/flags pinned); one question or one answer with <=10..14 symbolic bytes; one RR of each of 21 types with <=5 (8) RDATA bytes; loop unwinding limit 300 per activation (the termination assertion)", "LOC float arithmetic is opaque", "third clause (verifC12Resolve): one answer RR with symbolic class/TTL, type in {A,AAAA,CNAME,HTTPS,NS,TXT,unknown} and <=3 symbolic RDATA bytes (both tiers: a fourth byte multiplies the paths by more than 100 and does not finish in the budget), owner = a pointer to the queried name, served through the DoH seam to Resolver.Resolve: no panic", "verifC12Params: SvcParam key 0..8/unknown, declared length exact/+1/-1, value <=9 (13) bytes (16/32 for ipv6hint), optional second parameter; SOA tail 0/19/20/21 bytes; SRV/RRSIG names <=3 bytes; LOC 15..17 bytes", "verifC12Memory: count fields in {0,1,0x1000,0xffff}, body <=4 bytes; allocation = bytes requested by make/new/append growth in interpreted code (natively runtime.MemStats.TotalAlloc), bound 16 KiB + 1 KiB per input byte", "verifC12FarPointers: pointer offsets >= 256 into a 260-byte opaque RDATA", "outside: 64 KiB inputs"},
	"C13": {"oracle: reference RFC 1035 encoder with compression and field-wise equality in the harness", "bounds: all header bits, <=1 question, 1 (2) RRs of A/AAAA/NS/CNAME/PTR/OPT/HTTPS, names of <=1 (2) labels of 1..2 symbolic non-dot bytes, padding for every question-name length 0..130 x 4 OPT shapes, ResponseCode over all 2^8 x 2^32 values", "verifC13Exact: Message.Bytes equals a reference encoder byte for byte (names as \"\", 1..2 labels, trailing dot, 63-byte label)", "verifC13RefEncode: reference-written TXT (<=2 strings), MX, SOA, SRV, SVCB (<=2 parameters), HTTPS with keys 0/1/4/6/7 and two hints each, OPT (<=2 options); RDATA names in full or compressed; symbolic header flags", "verifC13MaxName: 255- and 254-octet names", "outside: MX/SOA/TXT/SRV/SVCB encoding (the encoder does not support them); x/net dnsmessage as second codec"},
	"C14": {"DoH seam: dns.DoH is diverted to a harness hook (source overlay) that decodes the query actually built", "name forms are concrete (12 forms + 20 literal/hostile forms): string parsing of symbolic text is not attempted", "bounds: symbolic zone with per-query response code in {0,1,2,3,4,5,9} or answers: alias chain <=3 with loops through and past the origin, self-alias, alias to \".\", service records out of priority order with a target (incl. the queried host itself), an RRSet mixing both modes, poisoned answers with unrelated owner names, in-answer CNAME chains of 1..2 hops for A and HTTPS, AAAA answers; alias chains of 0..6 hops from host / host:port / scheme://host; name lengths 240..256 with and without prefix", "outside: arbitrary name strings", "verifC14Loops: 4 loop shapes x {host, host:port}; verifC14BadForms: 10 inputs that are no host names, 2 URL forms", "verifC14HostileTargets: alias / service targets with a 100-byte label, a 543-byte name, an empty label"},
	"C15": {"oracle: the rules of the statement as a straight-line reference in the harness", "bounds: <=2 (3) HTTPS records (quick: only the first varies in every field), priority 0..2, target, port, no-default-alpn, ALPN with spare capacity, ECH, hints; <=2 addresses of 4/16 (5) bytes over a 2-value alphabet; ports 443/80 (8443,0); networks tcp,tcp4,udp6 (all six); early termination"},
	"C16": {"DoH seam as C14; package clock timeNow set to a symbolic non-decreasing clock by the in-package harness", "real golang-lru 2Q cache code and sync.RWMutex (engine model) are executed", "bounds: min-TTL over <=3 answers with arbitrary 32-bit TTLs; histories of 4 (5) operations {lookup, advance clock by <=2^31 s, change zone, toggle upstream failure (transport error, SERVFAIL or response code 9)} on one name; zone shapes: 1..2 A records, no record, records without an answer", "verifC16Keys: two names x two types, concrete TTLs", "concurrency clause (verifC16Race): two goroutines Resolve the same name through one Resolver (cold or warm cache) and enumerate Targets; every schedule with at most 2 pre-emptions at synchronisation points (lock acquire/release, channel operations) is explored and a vector-clock happens-before monitor over all loads, stores, in-place appends and sort swaps reports unordered conflicting accesses; native replay under the Go race detector (-race)", "outside: pre-emption between ordinary instructions, more than 2 goroutines, more than 2 pre-emptions; the LRU library's internals are executed but only its lock operations are scheduling points", "verifC16Constructors: NewResolver x2, SetCacheSize(0) then SetCacheSize(1|2), working set of 3 names; verifC16ZeroTTLConcurrent: expired entry, TTL-0 answers, two concurrent lookups, <=2 pre-emptions", "verifC16FailureBesideSuccess: two overlapping lookups, first upstream query SERVFAIL, second TTL 3600, then a third lookup; <=2 pre-emptions"},
	"C17": {"resolver injected through the context (transportResolver) by the in-package harness; DialFunc is a harness function with symbolic outcomes", "concurrency layer as C10 with deterministic scheduling (the property is about data, not order)", "bounds: <=2 HTTPS records (ECH on a symbolic subset) over 2 addresses, RequireECH/PublicName/caller ECH list/caller ServerName symbolic, outcomes {ok,error,ECH rejection with/without retry configs, bare or wrapped}, a retry answered by another retry list, MaxConcurrency 1", "verifC17AddressForms: 6 address forms (IPv6/IPv4 literals, trailing dot, padded list entry, a failing first name)"},
	"C18": {"reduced strength: virtual time, goroutine interleavings only at synchronisation points with deterministic scheduling, select choices forked; durations from the grid {0,2,6} units, ConcurrencyDelay 4 units, Timeout 10 units", "bounds: 0..3 targets, MaxConcurrency 1..2, outcomes {succeed, fail, hang, succeed without watching the context}, optional caller cancellation at {0.5,3.5,6.5} units (never at an instant at which an attempt completes)", "verifC18Defaults: zero-valued Dialer, 5 hanging targets, cancellation after 2.5 s", "time upper bounds and the goroutine-leak count are asserted in the engine only (native replay uses real timers and lower bounds)", "outside: runtime schedules (pre-emption), symbolic durations", "verifC18Schedules: 2 targets, 2 workers, outcomes {succeed, fail} at once, optional cancellation; scheduling points at go/channel/select/atomic operations and a 5 ms stall inside the dial function; every schedule within 2 deviations from the default scheduler"},
	"C19": {"DoH seam as C14; (*http.Transport).RoundTrip modelled as: dial the canonical address of URL.Host through the transport's own DialTLSContext/DialContext with the request context; natively the real http.Transport runs", "bounds: 4 concrete URL forms x <=2 (3) HTTPS records with ALPN a symbolic subset of {h2,h3,http/1.1,x}, no-default-alpn symbolic, optional alias record, with/without an HTTP/3 round-tripper, Host header override, Transport.TLSConfig", "pool keys (verifC19PoolKeys): 15 adversarially similar concrete origins (incl. IPv6 literals), with/without HTTPS records (scheme upgrade) and a shared Host header override, pairwise: different scheme/host/port never share the address the underlying transport is asked to dial (its pool key)", "outside: net/http connection pooling itself (read, not encoded)"},
	"C20": {"seams: getZoneData and updateRecord diverted to harness hooks (source overlay); pagination/JSON/HTTP status handling are behind the seams", "oracle: token-level reference (split on single spaces) in the harness", "preconditions: no spaces inside a parameter", "bounds: first record with <=2 (3) parameters (known shapes or <=2 (4) symbolic bytes over {e,c,h,=,\",a,1}; several ech entries may occur), second record fixed in the quick tier, a second zone with a record of the same name; config lists whose base64 has no/one/two padding characters and '+' '/'; <=2 (3) targets incl. duplicates, unknown zone, missing name; one injected fault (zone listing or first PATCH)"},
}
