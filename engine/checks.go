package main

// Registry of harnesses per property.

var checks = map[string][]HarnessSpec{
	"C02": {
		{Name: "verifC02Honest", Pkg: ".", Labels: []string{"accepted"}},
		{Name: "verifC02Flip", Pkg: ".", Labels: []string{"ran"}},
		{Name: "verifC02Subst", Pkg: ".", Labels: []string{"ran"}},
	},
	"C03": {
		{Name: "verifC03Reconstruct", Pkg: ".", Labels: []string{"accepted", "checked"}},
	},
	"C04": {
		{Name: "verifC04Rules", Pkg: ".", Labels: []string{"ran"}},
	},
	"C05": {
		{Name: "verifC05Raw", Pkg: ".", Labels: []string{"passed", "refused"}},
		{Name: "verifC05Ext", Pkg: ".", Labels: []string{"passed", "refused", "valid"}},
		{Name: "verifC05Structured", Pkg: ".", Labels: []string{"passed", "valid"}},
	},
	"C06": {
		{Name: "verifC06History", Pkg: ".", Labels: []string{"setup", "retry-ok", "retry-abort", "done"}},
	},
	"C07": {
		{Name: "verifC07ReadPipe", Pkg: ".", Labels: []string{"drained"}},
		{Name: "verifC07WritePipe", Pkg: ".", Labels: []string{"written", "write-failed"}},
		{Name: "verifC07WriteStep", Pkg: ".", Labels: []string{"step"}},
		{Name: "verifC07LegalLengths", Pkg: ".", Labels: []string{"read", "write"}},
	},
	"C08": {
		{Name: "verifC08Raw", Pkg: ".", Labels: []string{"newconn-ok", "newconn-error", "reads-done"}},
		{Name: "verifC08Ext", Pkg: ".", Labels: []string{"newconn-ok", "newconn-error"}},
		{Name: "verifC08ReadArmed", Pkg: ".", Labels: []string{"armed"}},
		{Name: "verifC08WriteArmed", Pkg: ".", Labels: []string{"writes-done"}},
		{Name: "verifC08AroundECH", Pkg: ".", Labels: []string{"newconn-ok", "newconn-error"}},
	},
	"C09": {
		{Name: "verifC09KeySets", Pkg: ".", Labels: []string{"ran", "accepted", "passthrough"}},
	},
	"C10": {
		{Name: "verifC10AfterReturn", Pkg: ".", Labels: []string{"after-return"}},
		{Name: "verifC10WhileBlocked", Pkg: ".", Labels: []string{"cancelled", "ok"}},
	},
	"C11": {
		{Name: "verifC11Encode", Pkg: ".", Labels: []string{"roundtrip"}},
		{Name: "verifC11Refuse", Pkg: ".", Labels: []string{"refused"}},
		{Name: "verifC11List", Pkg: ".", Labels: []string{"list"}},
		{Name: "verifC11NewConfig", Pkg: ".", Labels: []string{"newconfig"}},
		{Name: "verifC11ParseRaw", Pkg: ".", Labels: []string{"raw", "raw-valid"}},
	},
	"C12": {
		{Name: "verifC12Raw", Pkg: "./dns", Labels: []string{"decoded", "rejected"}, Quick: TierOpts{LoopLimit: 300}, Thorough: TierOpts{LoopLimit: 300}},
		{Name: "verifC12Names", Pkg: "./dns", Labels: []string{"decoded", "rejected"}, Quick: TierOpts{LoopLimit: 300}, Thorough: TierOpts{LoopLimit: 300}},
		{Name: "verifC12RData", Pkg: "./dns", Labels: []string{"decoded", "rejected"}, Quick: TierOpts{LoopLimit: 300}, Thorough: TierOpts{LoopLimit: 300}},
	},
	"C13": {
		{Name: "verifC13RoundTrip", Pkg: "./dns", Labels: []string{"roundtrip"}},
		{Name: "verifC13Compressed", Pkg: "./dns", Labels: []string{"compressed"}},
		{Name: "verifC13Padding", Pkg: "./dns", Labels: []string{"padded"}},
		{Name: "verifC13ResponseCode", Pkg: "./dns", Labels: []string{"rcode"}},
	},
	"C14": {
		{Name: "verifC14Names", Pkg: ".", Labels: []string{"names"}},
		{Name: "verifC14Literals", Pkg: ".", Labels: []string{"literals"}},
		{Name: "verifC14Zone", Pkg: ".", Labels: []string{"resolved", "error"}},
	},
	"C15": {
		{Name: "verifC15Targets", Pkg: ".", Labels: []string{"checked"}},
	},
	"C16": {
		{Name: "verifC16MinTTL", Pkg: ".", Labels: []string{"minttl"}},
		{Name: "verifC16Expiry", Pkg: ".", Labels: []string{"hit", "miss"}},
		{Name: "verifC16Cache", Pkg: ".", Labels: []string{"history", "cache-hit"}},
	},
	"C17": {
		{Name: "verifC17Dial", Pkg: ".", Labels: []string{"dialed", "connected", "failed"}},
	},
	"C18": {
		{Name: "verifC18Dial", Pkg: ".", Labels: []string{"returned", "connected", "all-failed", "quiesced"}},
	},
	"C19": {
		{Name: "verifC19RoundTrip", Pkg: ".", Labels: []string{"roundtrip", "h3", "https", "plaintext-refused"}},
	},
	"C20": {
		{Name: "verifC20Publish", Mod: "publish", Pkg: ".", Labels: []string{"published"}},
	},
	"SMOKE": {
		{Name: "verifSmoke", Pkg: "."},
	},
}

var commonAssumptions = []string{
	"engine: own SSA-level symbolic executor (gosym); lengths/offsets concretised by forking, contents symbolic bit-vectors; soundness rests on witness replay against the native build and native confirmation of every reported violation",
	"package initialisers run lazily per package; map iteration order = insertion order; append growth mirrors runtime.growslice for amd64",
	"fmt/log formatting is modelled (message text is not part of any property); errors.Is/As walk real Unwrap chains",
}

func assumptionsFor(prop string) []string {
	out := append([]string{}, commonAssumptions...)
	out = append(out, propAssumptions[prop]...)
	return out
}

var propAssumptions = map[string][]string{}
