package main

import (
	"encoding/json"
	"flag"
	"fmt"
	"os"
	"path/filepath"
	"sort"
	"strconv"
	"strings"
	"time"
)

var verifDir = "/verif"

func main() {
	if len(os.Args) < 2 {
		fmt.Fprintln(os.Stderr, "usage: gosym check <property> --tier quick|thorough | gosym run --harness f")
		os.Exit(2)
	}
	if d := os.Getenv("VERIF_DIR"); d != "" {
		verifDir = d
	}
	if d := os.Getenv("VERIF_REPO"); d != "" {
		repoRoot = d
	}
	switch os.Args[1] {
	case "check":
		os.Exit(cmdCheck(os.Args[2:]))
	case "run":
		os.Exit(cmdRun(os.Args[2:]))
	case "replay":
		os.Exit(cmdReplay(os.Args[2:]))
	case "list":
		for _, id := range propertyIDs() {
			for _, h := range checks[id] {
				fmt.Printf("%s %s mod=%q pkg=%s mintier=%d\n", id, h.Name, h.Mod, h.Pkg, h.MinTier)
			}
		}
		os.Exit(0)
	}
	fmt.Fprintln(os.Stderr, "unknown command")
	os.Exit(2)
}

func propertyIDs() []string {
	var ids []string
	for id := range checks {
		ids = append(ids, id)
	}
	sort.Strings(ids)
	return ids
}

func modPatterns(mod string) (string, []string) {
	if mod == "publish" {
		return filepath.Join(repoRoot, "publish"), []string{"."}
	}
	return repoRoot, []string{".", "./dns"}
}

func cmdRun(args []string) int {
	fs := flag.NewFlagSet("run", flag.ExitOnError)
	harness := fs.String("harness", "", "harness function")
	raceFlag := fs.Bool("race", false, "native replay with -race")
	mod := fs.String("mod", "", "module dir relative to /repo")
	pkg := fs.String("pkg", ".", "package")
	tier := fs.Int("tier", 0, "0 quick 1 thorough")
	workers := fs.Int("workers", 16, "workers")
	maxPaths := fs.Int64("max-paths", 0, "path budget")
	timeout := fs.Int("timeout", 0, "seconds")
	trace := fs.Bool("trace", false, "stack traces for engine bugs")
	native := fs.Bool("native", false, "replay witnesses and violations natively")
	loop := fs.Int("loop", 0, "loop limit")
	fs.Parse(args)
	t0 := time.Now()
	modDir, pats := modPatterns(*mod)
	prog, err := loadProgram(verifDir, modDir, pats)
	if err != nil {
		fmt.Fprintln(os.Stderr, err)
		return 3
	}
	fmt.Fprintf(os.Stderr, "loaded in %.1fs\n", time.Since(t0).Seconds())
	if prog.harnessFn(*harness) == nil {
		fmt.Fprintf(os.Stderr, "harness %s not found\n", *harness)
		return 3
	}
	spec := HarnessSpec{Name: *harness, Mod: *mod, Pkg: *pkg, Quick: TierOpts{MaxPaths: *maxPaths, TimeoutS: *timeout, LoopLimit: *loop}}
	spec.Thorough = spec.Quick
	spec.Race = *raceFlag
	res := runHarness(prog, spec, *tier, 0, *workers, *trace)
	printResult(res)
	if *native {
		nativeValidate(prog, *mod, *pkg, []*HarnessResult{res}, *tier)
		for _, v := range res.Confirmed {
			fmt.Printf("CONFIRMED %s  native=%s\n", v.Signature(), firstLine(v.NativeOut))
		}
		for _, v := range res.Spurious {
			fmt.Printf("SPURIOUS  %s  native=%s\n", v.Signature(), firstLine(v.NativeOut))
		}
		fmt.Printf("witnesses validated: %d  mismatches: %v\n", res.WitnessOK, res.WitnessBad)
	}
	return 0
}

func printResult(r *HarnessResult) {
	s := r.Stats
	fmt.Printf("harness %s: paths=%d completed=%d assumed=%d cut=%d decisions=%d forks=%d instr=%d maxdepth=%d maxloop=%d wall=%.1fs\n",
		r.Spec.Name, s.Paths, s.Completed, s.Assumed, s.Cut, s.Decisions, s.Forks, s.Instr, s.MaxDepth, s.MaxLoopSeen, r.WallS)
	fmt.Printf("  solver: sat=%d unsat=%d unknown=%d errors=%d time=%.1fs  assertion queries=%d (unsat %d) checks=%d\n",
		r.Solver.Sat, r.Solver.Unsat, r.Solver.Unknown, r.Solver.Errors, r.Solver.Time.Seconds(), r.AssertQ, r.AssertUnsat, s.Checks)
	var labels []string
	for l, n := range s.Labels {
		labels = append(labels, fmt.Sprintf("%s:%d", l, n))
	}
	sort.Strings(labels)
	fmt.Printf("  labels: %v\n", labels)
	for m, n := range s.Unsupported {
		fmt.Printf("  INCONCLUSIVE x%d: %s\n", n, m)
	}
	for _, m := range s.Inconclusive {
		fmt.Printf("  INCONCLUSIVE: %s\n", m)
	}
	for n, c := range r.Notes {
		fmt.Printf("  note x%d: %s\n", c, n)
	}
	for _, v := range r.Violations {
		fmt.Printf("  CANDIDATE %s | %s\n     nondet=%s\n     obs=%v\n", v.Signature(), firstLine(v.Msg), hexVec(v.Nondet, 120), v.Obs)
	}
	for _, smp := range r.Samples {
		fmt.Printf("  sample: %s\n", smp)
	}
}

// nativeValidate replays witnesses and violation candidates of the results natively.
func nativeValidate(prog *Program, mod, pkg string, results []*HarnessResult, tier int) (buildErr string) {
	modDir, _ := modPatterns(mod)
	race := false
	for _, r := range results {
		if r.Spec.Race {
			race = true
		}
	}
	nr := &nativeRunner{verifDir: verifDir, modDir: modDir, pkg: pkg, race: race}
	os.MkdirAll(filepath.Join(verifDir, ".work"), 0o755)
	var names []string
	for _, r := range results {
		names = append(names, r.Spec.Name)
	}
	defer nr.cleanup()
	if err := nr.build(prog, names); err != nil {
		return err.Error()
	}
	var cases []nativeCase
	for _, r := range results {
		for i, w := range r.Witnesses {
			cases = append(cases, nativeCase{ID: fmt.Sprintf("w|%s|%d", r.Spec.Name, i), Harness: r.Spec.Name, Nondet: w.Nondet, Tier: tier})
		}
		for i, v := range r.Violations {
			cases = append(cases, nativeCase{ID: fmt.Sprintf("v|%s|%d", r.Spec.Name, i), Harness: r.Spec.Name, Nondet: v.Nondet, Tier: tier})
		}
	}
	if len(cases) == 0 {
		return ""
	}
	out := nr.run(cases, 6*time.Second)
	// schedule-dependent counterexamples (goroutines, runtime select): retry natively
	reproduced := func(v *Violation, nres *nativeResult) bool {
		if nres == nil {
			return false
		}
		switch v.Kind {
		case "assert":
			return nres.Status == "assert" && nres.Label == v.Label
		case "panic":
			return nres.Status == "panic" || nres.Status == "crash"
		case "hang", "deadlock":
			return nres.Status == "timeout" || (nres.Status == "crash" && (strings.Contains(nres.Msg, "out of memory") || strings.Contains(nres.Msg, "all goroutines are asleep")))
		case "race":
			return nres.Status == "race"
		}
		return false
	}
	for try := 0; try < 5; try++ {
		var again []nativeCase
		for _, r := range results {
			for i, v := range r.Violations {
				id := fmt.Sprintf("v|%s|%d", r.Spec.Name, i)
				if !reproduced(v, out[id]) && (v.Kind == "assert" || try < 3) {
					for k := 0; k < 4; k++ {
						again = append(again, nativeCase{ID: fmt.Sprintf("%s|t%d.%d", id, try, k), Harness: r.Spec.Name, Nondet: v.Nondet, Tier: tier})
					}
				}
			}
		}
		if len(again) == 0 {
			break
		}
		more := nr.run(again, 6*time.Second)
		for _, r := range results {
			for i, v := range r.Violations {
				id := fmt.Sprintf("v|%s|%d", r.Spec.Name, i)
				if reproduced(v, out[id]) {
					continue
				}
				for k := 0; k < 4; k++ {
					if nres := more[fmt.Sprintf("%s|t%d.%d", id, try, k)]; reproduced(v, nres) {
						out[id] = nres
					}
				}
			}
		}
	}
	// witnesses of schedule-dependent harnesses may need another native run too
	witnessOK := func(w *Witness, nres *nativeResult) bool {
		return nres != nil && (nres.Status == "ok" || nres.Status == "race") && equalStrs(nres.Obs, w.Obs) && hasLabel(nres.Labels, w.Label)
	}
	for try := 0; try < 8; try++ {
		var again []nativeCase
		for _, r := range results {
			for i, w := range r.Witnesses {
				id := fmt.Sprintf("w|%s|%d", r.Spec.Name, i)
				if !witnessOK(w, out[id]) {
					again = append(again, nativeCase{ID: fmt.Sprintf("%s|t%d", id, try), Harness: r.Spec.Name, Nondet: w.Nondet, Tier: tier})
				}
			}
		}
		if len(again) == 0 {
			break
		}
		more := nr.run(again, 6*time.Second)
		for _, r := range results {
			for i, w := range r.Witnesses {
				id := fmt.Sprintf("w|%s|%d", r.Spec.Name, i)
				if nres := more[fmt.Sprintf("%s|t%d", id, try)]; !witnessOK(w, out[id]) && witnessOK(w, nres) {
					out[id] = nres
				}
			}
		}
	}
	for _, r := range results {
		for i, w := range r.Witnesses {
			nres := out[fmt.Sprintf("w|%s|%d", r.Spec.Name, i)]
			if nres == nil {
				r.WitnessBad = append(r.WitnessBad, w.Label+": no native result")
				continue
			}
			if (nres.Status == "ok" || nres.Status == "race") && equalStrs(nres.Obs, w.Obs) && hasLabel(nres.Labels, w.Label) {
				r.WitnessOK++
				if nres.Status == "race" {
					// the Go race detector saw a data race on a path the engine's monitor passed: a violation in its own right
					engineSaw := false
					for _, v := range r.Violations {
						engineSaw = engineSaw || v.Kind == "race"
					}
					if !engineSaw {
						r.Confirmed = append(r.Confirmed, &Violation{Harness: r.Spec.Name, Kind: "race", Label: "data race reported by the Go race detector on a witness path", Msg: nres.Msg, Nondet: w.Nondet, Replayed: true, NativeOut: "race: " + nres.Msg})
					}
				}
			} else {
				r.WitnessBad = append(r.WitnessBad, fmt.Sprintf("%s: native status=%s label=%s obs=%v want obs=%v msg=%s", w.Label, nres.Status, nres.Label, nres.Obs, w.Obs, firstLine(nres.Msg)))
				if (nres.Status == "assert" || nres.Status == "panic") && !r.Spec.NoisyNative {
					// The real code (real HPKE, real transports) fails the harness on an input for which
					// the engine - through one of its models - saw the property hold, in every one of the
					// native runs of this witness: a concrete failing input against the real build.
					kind, label := "assert", nres.Label
					if nres.Status == "panic" {
						kind, label = "panic", "native panic on a witness path"
					}
					r.Confirmed = append(r.Confirmed, &Violation{Harness: r.Spec.Name, Kind: kind, Label: label, Msg: "native replay of a witness path fails where the engine's model passed: " + firstLine(nres.Msg), Nondet: w.Nondet, Replayed: true, NativeOut: nres.Status + ":" + nres.Label + " " + nres.Msg})
				}
			}
		}
		for i, v := range r.Violations {
			nres := out[fmt.Sprintf("v|%s|%d", r.Spec.Name, i)]
			if nres == nil {
				v.NativeOut = "no native result"
				r.Spurious = append(r.Spurious, v)
				continue
			}
			v.NativeOut = nres.Status + ":" + nres.Label + " " + nres.Msg
			ok := reproduced(v, nres)
			if ok {
				v.Replayed = true
				r.Confirmed = append(r.Confirmed, v)
			} else {
				r.Spurious = append(r.Spurious, v)
			}
		}
	}
	return ""
}

func equalStrs(a, b []string) bool {
	if len(a) != len(b) {
		return false
	}
	for i := range a {
		if a[i] != b[i] {
			return false
		}
	}
	return true
}

func hasLabel(ls []string, l string) bool {
	if l == "(end)" {
		return true
	}
	for _, x := range ls {
		if x == l {
			return true
		}
	}
	return false
}

// ---------------------------------------------------------------- check

func cmdCheck(args []string) int {
	if len(args) < 1 {
		fmt.Fprintln(os.Stderr, "usage: gosym check <property> [--tier quick|thorough]")
		return 2
	}
	prop := args[0]
	fs := flag.NewFlagSet("check", flag.ExitOnError)
	tierS := fs.String("tier", "", "quick|thorough")
	workers := fs.Int("workers", 16, "workers")
	fs.Parse(args[1:])
	if *tierS == "" {
		*tierS = os.Getenv("VERIF_TIER")
	}
	if *tierS == "" {
		*tierS = "quick"
	}
	tier := 0
	if *tierS == "thorough" {
		tier = 1
	}
	seed, _ := strconv.ParseInt(os.Getenv("VERIF_SEED"), 10, 64)
	specs, ok := checks[prop]
	if !ok {
		fmt.Fprintf(os.Stderr, "no check registered for %s\n", prop)
		return 2
	}
	t0 := time.Now()
	known := loadKnown(verifDir)
	// group by module/package
	type group struct {
		mod, pkg string
		specs    []HarnessSpec
	}
	var groups []*group
	for _, s := range specs {
		if s.MinTier > tier {
			continue
		}
		var g *group
		for _, x := range groups {
			if x.mod == s.Mod && x.pkg == s.Pkg {
				g = x
			}
		}
		if g == nil {
			g = &group{mod: s.Mod, pkg: s.Pkg}
			groups = append(groups, g)
		}
		g.specs = append(g.specs, s)
	}
	var all []*HarnessResult
	var inconclusive []string
	progs := map[string]*Program{}
	loadS := 0.0
	for _, g := range groups {
		prog := progs[g.mod]
		if prog == nil {
			tl := time.Now()
			modDir, pats := modPatterns(g.mod)
			var err error
			prog, err = loadProgram(verifDir, modDir, pats)
			if err != nil {
				fmt.Printf("INCONCLUSIVE property=%s cannot load %s: %v\n", prop, modDir, err)
				writeEvidence(prop, tier, seed, nil, []string{"load failure: " + err.Error()}, time.Since(t0).Seconds(), 0, nil, 0)
				return 0
			}
			loadS += time.Since(tl).Seconds()
			progs[g.mod] = prog
		}
		var results []*HarnessResult
		for _, s := range g.specs {
			if prog.harnessFn(s.Name) == nil {
				inconclusive = append(inconclusive, "harness not found: "+s.Name)
				continue
			}
			fmt.Fprintf(os.Stderr, "[%s] exploring %s ...\n", prop, s.Name)
			r := runHarness(prog, s, tier, seed, *workers, false)
			fmt.Fprintf(os.Stderr, "[%s] %s: %d paths in %.1fs, %d candidates\n", prop, s.Name, r.Stats.Paths, r.WallS, len(r.Violations))
			results = append(results, r)
		}
		if be := nativeValidate(prog, g.mod, g.pkg, results, tier); be != "" {
			inconclusive = append(inconclusive, "native replay build failed: "+trim(be, 600))
		}
		all = append(all, results...)
	}
	// classify
	os.MkdirAll(filepath.Join(verifDir, "replays", prop), 0o755)
	exit := 0
	nviol := 0
	var knownHits []string
	for _, r := range all {
		for m, n := range r.Stats.Unsupported {
			inconclusive = append(inconclusive, fmt.Sprintf("%s: %s (x%d)", r.Spec.Name, m, n))
		}
		for _, m := range r.Stats.Inconclusive {
			inconclusive = append(inconclusive, r.Spec.Name+": "+m)
		}
		if r.Stats.UnknownFeas > 0 {
			inconclusive = append(inconclusive, fmt.Sprintf("%s: %d feasibility queries returned unknown (both sides explored)", r.Spec.Name, r.Stats.UnknownFeas))
		}
		if r.Solver.Errors > 0 {
			inconclusive = append(inconclusive, fmt.Sprintf("%s: %d solver error lines", r.Spec.Name, r.Solver.Errors))
		}
		for _, l := range r.Spec.Labels {
			if r.Stats.Labels[l] == 0 {
				inconclusive = append(inconclusive, fmt.Sprintf("%s: VACUOUS label %q never reached", r.Spec.Name, l))
			}
		}
		for _, wb := range r.WitnessBad {
			inconclusive = append(inconclusive, r.Spec.Name+": witness mismatch (engine vs native): "+wb)
		}
		if r.Spec.Twin {
			if len(r.Confirmed) == 0 {
				inconclusive = append(inconclusive, r.Spec.Name+": reachability twin did NOT produce its violation (harness vacuous)")
			}
			continue
		}
		seen := map[string]bool{}
		for _, v := range r.Confirmed {
			sig := v.Signature()
			if seen[sig] {
				continue
			}
			seen[sig] = true
			if kf := known.match(prop, sig); kf != nil {
				knownHits = append(knownHits, sig)
				fmt.Printf("KNOWN-FINDING: property=%s %s [%s]\n", prop, kf.What, sig)
				continue
			}
			file := filepath.Join(verifDir, "replays", prop, sanitize(sig)+".json")
			data, _ := json.MarshalIndent(map[string]any{"property": prop, "signature": sig, "harness": v.Harness, "kind": v.Kind, "label": v.Label,
				"site": v.Site, "msg": v.Msg, "nondet": v.Nondet, "tier": tier, "native": trim(v.NativeOut, 2000), "mod": r.Spec.Mod, "pkg": r.Spec.Pkg}, "", " ")
			os.WriteFile(file, data, 0o644)
			fmt.Printf("VIOLATION property=%s replay=%s\n", prop, file)
			fmt.Printf("  %s: %s\n", sig, firstLine(v.Msg))
			nviol++
			exit = 1
		}
		for _, v := range r.Spurious {
			inconclusive = append(inconclusive, fmt.Sprintf("%s: engine candidate not reproduced natively (not reported): %s -> %s", r.Spec.Name, v.Signature(), firstLine(v.NativeOut)))
		}
	}
	for _, m := range inconclusive {
		fmt.Printf("INCONCLUSIVE property=%s %s\n", prop, m)
	}
	writeEvidence(prop, tier, seed, all, inconclusive, time.Since(t0).Seconds(), nviol, knownHits, loadS)
	if exit == 0 {
		fmt.Printf("OK property=%s tier=%s harnesses=%d wall=%.1fs\n", prop, *tierS, len(all), time.Since(t0).Seconds())
	}
	return exit
}

func sanitize(s string) string {
	var sb strings.Builder
	for _, c := range s {
		switch {
		case c >= 'a' && c <= 'z', c >= 'A' && c <= 'Z', c >= '0' && c <= '9', c == '-', c == '_':
			sb.WriteRune(c)
		default:
			sb.WriteByte('_')
		}
	}
	out := sb.String()
	if len(out) > 120 {
		out = out[:120]
	}
	return out
}

func writeEvidence(prop string, tier int, seed int64, results []*HarnessResult, inconclusive []string, wall float64, nviol int, knownHits []string, loadS float64) {
	tierName := "quick"
	if tier == 1 {
		tierName = "thorough"
	}
	var states, transitions, validated, instr, checksN, assertQ, assertUnsat int64
	var sat, unsat, unknown int
	var solverT float64
	var samples []any
	funcs := map[string]bool{}
	var harnesses []any
	exhaustive := len(inconclusive) == 0
	labels := map[string]int64{}
	maxLoop := 0
	for _, r := range results {
		states += r.Stats.Completed + r.Stats.Assumed
		transitions += r.Stats.Decisions
		validated += int64(r.WitnessOK + len(r.Confirmed))
		instr += r.Stats.Instr
		checksN += r.Stats.Checks
		assertQ += r.AssertQ
		assertUnsat += r.AssertUnsat
		sat += r.Solver.Sat
		unsat += r.Solver.Unsat
		unknown += r.Solver.Unknown
		solverT += r.Solver.Time.Seconds()
		if r.Stats.MaxLoopSeen > maxLoop {
			maxLoop = r.Stats.MaxLoopSeen
		}
		for _, s := range r.Samples {
			samples = append(samples, r.Spec.Name+": "+s)
		}
		for _, f := range r.Funcs {
			if strings.Contains(f, "c2FmZQ/ech") || strings.Contains(f, "cryptobyte") {
				funcs[f] = true
			}
		}
		for l, n := range r.Stats.Labels {
			labels[r.Spec.Name+"/"+l] = n
		}
		var cands []string
		for _, v := range r.Confirmed {
			cands = append(cands, v.Signature())
		}
		harnesses = append(harnesses, map[string]any{
			"name": r.Spec.Name, "paths": r.Stats.Paths, "completed": r.Stats.Completed, "pruned_by_assume": r.Stats.Assumed, "cut_by_stated_bound": r.Stats.Cut,
			"decisions": r.Stats.Decisions, "max_depth": r.Stats.MaxDepth, "instructions": r.Stats.Instr, "wall_s": round1(r.WallS),
			"confirmed_violations": cands, "spurious_candidates": len(r.Spurious), "witnesses_validated": r.WitnessOK,
			"opaque_debug_lookups": r.Opaque, "notes": r.Notes, "twin": r.Spec.Twin,
			"cross_solver": map[string]int{"assertion_queries_rechecked": r.Cross[0], "agree": r.Cross[1], "disagree": r.Cross[2], "unknown": r.Cross[3]},
			"one_shot_retries_of_unknown": r.Retried,
		})
	}
	if states == 0 {
		states = 1
		exhaustive = false
	}
	if transitions == 0 {
		transitions = 1
	}
	if len(samples) == 0 {
		samples = append(samples, "no completed path")
	}
	var fl []string
	for f := range funcs {
		fl = append(fl, f)
	}
	sort.Strings(fl)
	ev := map[string]any{
		"property_id": prop, "tier": tierName, "seed": seed, "level": "model_checking",
		"coverage": map[string]any{
			"states": states, "transitions": transitions, "traces_validated_against_impl": validated,
			"samples": samples, "exhaustive": exhaustive,
			"explanation": "states = symbolic paths explored to completion (each stands for every concrete input satisfying its path condition); transitions = solver-decided branch/length decisions; traces validated = engine paths whose concrete witness was re-run natively (go test -overlay) with identical observations, plus natively confirmed counterexamples",
			"functions_encoded": fl, "harnesses": harnesses, "labels_reached": labels,
			"queries": map[string]any{"sat": sat, "unsat": unsat, "unknown": unknown, "assertion_queries": assertQ, "assertion_unsat": assertUnsat},
			"assertions_evaluated": checksN, "instructions_interpreted": instr,
			"solver_time_s": round1(solverT), "solvers": []string{"z3 (/usr/bin/z3) over a pipe, QF_BV, incremental"},
			"unwinding": map[string]any{"max_block_visits_seen": maxLoop},
			"inconclusive": inconclusive, "known_findings_hit": knownHits, "load_ssa_s": round1(loadS),
		},
		"assumptions": assumptionsFor(prop),
		"wall_s":      round1(wall),
		"violations":  nviol,
	}
	os.MkdirAll(filepath.Join(verifDir, "evidence"), 0o755)
	data, _ := json.MarshalIndent(ev, "", " ")
	os.WriteFile(filepath.Join(verifDir, "evidence", prop+".json"), data, 0o644)
}

func round1(f float64) float64 { return float64(int64(f*10+0.5)) / 10 }

// cmdReplay re-runs a stored counterexample (replays/<id>/<sig>.json) natively
// against /repo's current working tree; exit 1 when it still reproduces.
func cmdReplay(args []string) int {
	if len(args) < 1 {
		fmt.Fprintln(os.Stderr, "usage: gosym replay <file>")
		return 2
	}
	data, err := os.ReadFile(args[0])
	if err != nil {
		fmt.Fprintln(os.Stderr, err)
		return 2
	}
	var rec struct {
		Property string   `json:"property"`
		Harness  string   `json:"harness"`
		Kind     string   `json:"kind"`
		Label    string   `json:"label"`
		Nondet   []uint64 `json:"nondet"`
		Tier     int      `json:"tier"`
		Mod      string   `json:"mod"`
		Pkg      string   `json:"pkg"`
	}
	if err := json.Unmarshal(data, &rec); err != nil {
		fmt.Fprintln(os.Stderr, err)
		return 2
	}
	modDir, pats := modPatterns(rec.Mod)
	prog, err := loadProgram(verifDir, modDir, pats)
	if err != nil {
		fmt.Fprintln(os.Stderr, err)
		return 2
	}
	os.MkdirAll(filepath.Join(verifDir, ".work"), 0o755)
	nr := &nativeRunner{verifDir: verifDir, modDir: modDir, pkg: rec.Pkg, race: rec.Kind == "race"}
	defer nr.cleanup()
	if err := nr.build(prog, []string{rec.Harness}); err != nil {
		fmt.Fprintln(os.Stderr, err)
		return 2
	}
	v := &Violation{Kind: rec.Kind, Label: rec.Label}
	for try := 0; try < 5; try++ {
		out := nr.run([]nativeCase{{ID: "r", Harness: rec.Harness, Nondet: rec.Nondet, Tier: rec.Tier}}, 6*time.Second)
		res := out["r"]
		if res == nil {
			continue
		}
		ok := false
		switch rec.Kind {
		case "assert":
			ok = res.Status == "assert" && res.Label == v.Label
		case "panic":
			ok = res.Status == "panic" || res.Status == "crash"
		case "hang", "deadlock":
			ok = res.Status == "timeout" || res.Status == "crash"
		case "race":
			ok = res.Status == "race"
		}
		if ok {
			fmt.Printf("REPRODUCED property=%s harness=%s kind=%s label=%q native=%s %s\n", rec.Property, rec.Harness, rec.Kind, rec.Label, res.Status, firstLine(res.Msg))
			return 1
		}
		if try == 0 {
			fmt.Printf("native status: %s %s %s\n", res.Status, res.Label, firstLine(res.Msg))
		}
	}
	fmt.Printf("NOT REPRODUCED property=%s harness=%s\n", rec.Property, rec.Harness)
	return 0
}
