package main

import (
	"fmt"
	"go/types"
	"os"
	"path/filepath"
	"sort"
	"strings"
	"sync"

	"golang.org/x/tools/go/packages"
	"golang.org/x/tools/go/ssa"
	"golang.org/x/tools/go/ssa/ssautil"
)

// Program is the loaded, SSA-built repository plus harness overlays (shared, read-only).
type Program struct {
	ssa       *ssa.Program
	pkgs      []*packages.Package
	byPath    map[string]*ssa.Package
	fnInfos   sync.Map
	methCache sync.Map
	implCache sync.Map
	mergeCache sync.Map
	methMu    sync.Mutex
	intrinsics map[string]Intrinsic
	opaqueTables map[string]bool
	errStringT types.Type // *errors.errorString
	overlay   map[string][]byte
	repoDir   string
	loadSecs  float64
	initMu    sync.Mutex
}

// repoRoot is the tree under verification: /repo, or a scratch copy named by
// VERIF_REPO (used only to try seeded changes without touching /repo).
var repoRoot = "/repo"

// harnessOverlay maps harness source files under /verif/harness/<pkgdir>/ to
// virtual files inside the repository package directories.
func harnessOverlay(verifDir string) (map[string][]byte, error) {
	ov := make(map[string][]byte)
	root := filepath.Join(verifDir, "harness")
	pkgName := map[string]string{"root": "ech", "dns": "dns", "publish": "publish"}
	for dir, pn := range pkgName {
		entries, err := os.ReadDir(filepath.Join(root, dir))
		if err != nil {
			continue
		}
		target := dir
		if dir == "root" {
			target = ""
		}
		n := 0
		for _, e := range entries {
			if e.IsDir() || !strings.HasSuffix(e.Name(), ".go") {
				continue
			}
			data, err := os.ReadFile(filepath.Join(root, dir, e.Name()))
			if err != nil {
				return nil, err
			}
			ov[filepath.Join(repoRoot, target, e.Name())] = data
			n++
		}
		if n == 0 {
			continue
		}
		// materialise the API templates for this package
		tmpls, _ := os.ReadDir(filepath.Join(root, "api"))
		for _, t := range tmpls {
			if !strings.HasSuffix(t.Name(), ".go.tmpl") {
				continue
			}
			if strings.Contains(t.Name(), "hpke") && dir != "root" {
				continue
			}
			data, err := os.ReadFile(filepath.Join(root, "api", t.Name()))
			if err != nil {
				return nil, err
			}
			out := strings.Replace(string(data), "package PKG", "package "+pn, 1)
			name := "zz_verif_" + strings.TrimSuffix(t.Name(), ".tmpl")
			ov[filepath.Join(repoRoot, target, name)] = []byte(out)
		}
	}
	return ov, nil
}

func loadProgram(verifDir, modDir string, patterns []string) (*Program, error) {
	native := false
	ov, err := harnessOverlay(verifDir)
	if err != nil {
		return nil, err
	}
	if err := applySeams(ov); err != nil {
		return nil, err
	}
	// native-only files (real implementations of the v* API) are excluded from the
	// symbolic build by build tag; nothing to do here: both are in the overlay and
	// selected with the "verifnative" tag.
	cfg := &packages.Config{
		Mode:    packages.LoadAllSyntax,
		Dir:     modDir,
		Overlay: ov,
		Env:     append(os.Environ(), "GOFLAGS=-mod=mod", "GOPROXY=off"),
	}
	if native {
		cfg.BuildFlags = []string{"-tags=verifnative"}
	}
	pkgs, err := packages.Load(cfg, patterns...)
	if err != nil {
		return nil, err
	}
	var errs []string
	packages.Visit(pkgs, nil, func(p *packages.Package) {
		for _, e := range p.Errors {
			errs = append(errs, e.Error())
		}
	})
	if len(errs) > 0 {
		sort.Strings(errs)
		if len(errs) > 20 {
			errs = errs[:20]
		}
		return nil, fmt.Errorf("package load errors:\n%s", strings.Join(errs, "\n"))
	}
	sprog, _ := ssautil.AllPackages(pkgs, ssa.InstantiateGenerics)
	sprog.Build()
	prog := &Program{ssa: sprog, pkgs: pkgs, byPath: make(map[string]*ssa.Package), overlay: ov, repoDir: repoRoot}
	for _, p := range sprog.AllPackages() {
		prog.byPath[p.Pkg.Path()] = p
	}
	prog.opaqueTables = map[string]bool{}
	prog.intrinsics = buildIntrinsics()
	if ep := prog.byPath["errors"]; ep != nil {
		prog.errStringT = types.NewPointer(ep.Type("errorString").Type())
	}
	return prog, nil
}

// runtimeError builds an interface value that behaves like a runtime.Error for
// recover(): an *errors.errorString carrying the message.
func (prog *Program) runtimeError(msg string) Value {
	cell := &Value{K: KAgg, R: []Value{mkStr("runtime error: " + msg)}}
	return mkIface(prog.errStringT, mkPtr(cell))
}

func (prog *Program) newError(msg string) Value {
	cell := &Value{K: KAgg, R: []Value{mkStr(msg)}}
	return mkIface(prog.errStringT, mkPtr(cell))
}

func (prog *Program) function(pkgPath, name string) *ssa.Function {
	p := prog.byPath[pkgPath]
	if p == nil {
		return nil
	}
	return p.Func(name)
}

func (prog *Program) namedType(pkgPath, name string) types.Type {
	p := prog.byPath[pkgPath]
	if p == nil {
		return nil
	}
	t := p.Type(name)
	if t == nil {
		return nil
	}
	return t.Type()
}

// ---------------------------------------------------------------- Worker

type Worker struct {
	ex      *Explorer
	id      int
	prog    *Program
	ts      *TermStore
	sol     *Solver
	globals map[*ssa.Global]*Value
	inited  map[*ssa.Package]int // 0 no, 1 running, 2 done
	consts  map[*ssa.Const]Value
	initDepth int
	funcs   map[*ssa.Function]struct{}
	trackFuncs bool
	opaqueHits map[string]int
	uniq    map[string]*Value
	p       *Path
	undo    []undoRec
	mapGen  uint64
	paths   int
}

type undoRec struct {
	cell *Value
	old  Value
	m    *Map
	mc   *Map
}

func newWorker(ex *Explorer, id int) (*Worker, error) {
	sol, err := NewSolver(ex.opts.SolverBin, ex.opts.SolverTimeout)
	if err != nil {
		return nil, err
	}
	w := &Worker{ex: ex, id: id, prog: ex.prog, ts: NewTermStore(), sol: sol,
		globals: make(map[*ssa.Global]*Value), inited: make(map[*ssa.Package]int),
		consts: make(map[*ssa.Const]Value), funcs: make(map[*ssa.Function]struct{}),
		opaqueHits: make(map[string]int), uniq: make(map[string]*Value), trackFuncs: true}
	return w, nil
}

func (w *Worker) close() {
	w.ex.mu.Lock()
	for f := range w.funcs {
		w.ex.funcsSeen[f.String()] = true
	}
	s := w.sol.Stats
	w.ex.solver.Sat += s.Sat
	w.ex.solver.Unsat += s.Unsat
	w.ex.solver.Unknown += s.Unknown
	w.ex.solver.Errors += s.Errors
	w.ex.solver.Time += s.Time
	w.ex.mu.Unlock()
	w.sol.Close()
}

func (w *Worker) constVal(c *ssa.Const) Value {
	if v, ok := w.consts[c]; ok {
		return v
	}
	v := constValue(c)
	w.consts[c] = v
	return v
}

// global returns the cell of a package-level variable, initialising its package lazily.
func (w *Worker) global(g *Goroutine, gl *ssa.Global) *Value {
	if cell, ok := w.globals[gl]; ok {
		if w.inited[gl.Pkg] == 0 {
			w.ensureInit(g, gl.Pkg)
		}
		return cell
	}
	cell := new(Value)
	*cell = zero(deref(gl.Type()))
	w.globals[gl] = cell
	w.ensureInit(g, gl.Pkg)
	return cell
}

// packages whose initialisers are never run (their globals read as zero values is an error).
var noInitPkgs = map[string]bool{
	"runtime": true, "os": true, "syscall": true, "internal/poll": true, "internal/cpu": true,
	"internal/godebug": true, "internal/syscall/unix": true, "os/signal": true,
	"internal/bytealg": true, "runtime/debug": true, "internal/runtime/atomic": true,
	"internal/abi": true, "internal/goos": true, "internal/goarch": true, "reflect": true,
	"internal/reflectlite": true, "sync": true, "internal/sync": true, "sync/atomic": true,
	"internal/race": true, "testing": true, "log": true, "unsafe": true,
	"internal/testlog": true, "internal/oserror": true, "io/fs": true,
}

func (w *Worker) ensureInit(g *Goroutine, pkg *ssa.Package) {
	if pkg == nil || w.inited[pkg] != 0 {
		return
	}
	if noInitPkgs[pkg.Pkg.Path()] {
		w.inited[pkg] = 2
		switch pkg.Pkg.Path() {
		case "os", "syscall", "internal/poll", "runtime", "reflect", "log", "testing":
			// a silently zero global must never make a property pass
			if g != nil && g.p != nil && w.initDepth == 0 {
				g.p.unsupported("use of a package-level variable of %s, whose initialiser is not modelled", pkg.Pkg.Path())
			}
		}
		return
	}
	w.inited[pkg] = 1
	initFn := pkg.Func("init")
	if initFn == nil || initFn.Blocks == nil {
		w.inited[pkg] = 2
		return
	}
	w.initDepth++
	// run the initializer as a plain call; calls to other packages' initializers are skipped
	// (fnInfo.skip) because those packages are initialised lazily on first use.
	info := w.prog.info(initFn)
	saved := info.skip
	_ = saved
	w.runInit(g, initFn)
	w.initDepth--
	w.inited[pkg] = 2
}

func (w *Worker) runInit(g *Goroutine, fn *ssa.Function) {
	info := w.prog.info(fn)
	fr := &frame{g: g, fn: fn, info: info}
	fr.env = make([]Value, info.n)
	fr.visits = make([]int32, info.nblk)
	fr.block = fn.Blocks[0]
	fr.running = true
	fr.depth = 1
	saveLimit := g.p.ex.opts.LoopLimit
	_ = saveLimit
	g.p.inInit++
	for fr.running {
		fr.runBlocks()
	}
	g.p.inInit--
}

func (w *Worker) noteGlobalStore(g *Goroutine, gl *ssa.Global, cell *Value) {
	if w.initDepth > 0 || cell == nil {
		return
	}
	w.undo = append(w.undo, undoRec{cell: cell, old: copyVal(*cell)})
}

func (w *Worker) noteMapWrite(g *Goroutine, m *Map) {
	if w.initDepth > 0 {
		if m.gen == 0 {
			m.gen = 1 // init-era map
		}
		return
	}
	if m.gen == 1 {
		// first write of this path to an init-era map: snapshot it
		w.undo = append(w.undo, undoRec{m: m, mc: m.clone()})
		m.gen = 2
	}
}

func (w *Worker) rollback() {
	for i := len(w.undo) - 1; i >= 0; i-- {
		u := w.undo[i]
		if u.cell != nil {
			*u.cell = u.old
		} else if u.m != nil {
			*u.m = *u.mc
			u.m.gen = 1
		}
	}
	w.undo = w.undo[:0]
}
