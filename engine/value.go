package main

import (
	"fmt"
	"go/constant"
	"go/types"
	"math"
	"strings"

	"golang.org/x/tools/go/ssa"
)

type Kind uint8

const (
	KNil Kind = iota // uninitialised / untyped nil
	KInt
	KBool
	KFloat
	KComplex
	KStr
	KPtr
	KSlice
	KAgg // struct, array, tuple (copied on assignment)
	KMap
	KChan
	KFunc
	KIface
	KOpaque // engine object (R holds any Go value); never copied deeply
)

var kindNames = [...]string{"nil", "int", "bool", "float", "complex", "string", "ptr", "slice", "agg", "map", "chan", "func", "iface", "opaque"}

// Value is the interpreter's universal value.
//
//	KInt:   W = width, N = concrete bits, R = *Term when symbolic
//	KBool:  N = 0/1, R = *Term when symbolic
//	KFloat: W = 32/64, N = float64 bits
//	KStr:   R = string | *SymStr
//	KPtr:   R = *Value (nil pointer: R == nil)
//	KSlice: R = []Value (nil slice: R == nil or []Value(nil))
//	KAgg:   R = []Value
//	KMap:   R = *Map (nil map: R == nil)
//	KChan:  R = *Chan
//	KFunc:  R = *ssa.Function | *Closure | *ssa.Builtin | *Bound | nil
//	KIface: R = *Iface (nil interface: R == nil)
type Value struct {
	K Kind
	W uint8
	N uint64
	R any
}

type SymStr struct{ b []Value } // immutable byte sequence, at least one symbolic byte

type Iface struct {
	T types.Type
	V Value
}

type Closure struct {
	Fn  *ssa.Function
	Env []Value
}

// Bound is a bound method / interface method value.
type Bound struct {
	Fn   *ssa.Function
	Recv Value
}

// NativeFn is a function implemented by the engine (used for synthesized callbacks).
type NativeFn struct {
	Name string
	F    func(g *Goroutine, args []Value) Value
}

func mkInt(w uint8, v uint64) Value { return Value{K: KInt, W: w, N: v & mask(w)} }
func mkBool(b bool) Value {
	if b {
		return Value{K: KBool, N: 1}
	}
	return Value{K: KBool}
}
func mkStr(s string) Value      { return Value{K: KStr, R: s} }
func mkPtr(p *Value) Value {
	if p == nil {
		return Value{K: KPtr}
	}
	return Value{K: KPtr, R: p}
}
func mkSlice(s []Value) Value {
	if s == nil {
		return Value{K: KSlice}
	}
	return Value{K: KSlice, R: s}
}
func mkAgg(s []Value) Value { return Value{K: KAgg, R: s} }
func mkIface(t types.Type, v Value) Value {
	return Value{K: KIface, R: &Iface{T: t, V: v}}
}
func mkTermInt(t *Term) Value {
	if t.isConst() {
		return mkInt(t.w, t.k)
	}
	return Value{K: KInt, W: t.w, R: t}
}
func mkTermBool(t *Term) Value {
	if t.isConst() {
		return mkBool(t.k != 0)
	}
	return Value{K: KBool, R: t}
}

func (v Value) isSym() bool {
	if v.K == KInt || v.K == KBool {
		return v.R != nil
	}
	return false
}

func (v Value) term() *Term {
	if v.R == nil {
		return nil
	}
	t, _ := v.R.(*Term)
	return t
}

func (v Value) ptr() *Value {
	if v.R == nil {
		return nil
	}
	return v.R.(*Value)
}

func (v Value) slice() []Value {
	if v.R == nil {
		return nil
	}
	return v.R.([]Value)
}

func (v Value) agg() []Value { return v.R.([]Value) }

func (v Value) iface() *Iface {
	if v.R == nil {
		return nil
	}
	return v.R.(*Iface)
}

func (v Value) isNilRef() bool { return v.R == nil }

// toTerm lifts an int/bool value to a term.
func (ts *TermStore) toTerm(v Value) *Term {
	if t := v.term(); t != nil {
		return t
	}
	switch v.K {
	case KInt:
		return ts.Const(v.W, v.N)
	case KBool:
		return ts.Bool(v.N != 0)
	}
	panic(fmt.Sprintf("toTerm of %s", kindNames[v.K]))
}

// ---- strings

func strLen(v Value) int {
	switch s := v.R.(type) {
	case string:
		return len(s)
	case *SymStr:
		return len(s.b)
	}
	if v.R == nil {
		return 0
	}
	panic("strLen of non-string")
}

func strBytes(v Value) []Value {
	switch s := v.R.(type) {
	case string:
		out := make([]Value, len(s))
		for i := 0; i < len(s); i++ {
			out[i] = Value{K: KInt, W: 8, N: uint64(s[i])}
		}
		return out
	case *SymStr:
		return s.b
	}
	if v.R == nil {
		return nil
	}
	panic("strBytes of non-string")
}

func strByte(v Value, i int) Value {
	switch s := v.R.(type) {
	case string:
		return Value{K: KInt, W: 8, N: uint64(s[i])}
	case *SymStr:
		return s.b[i]
	}
	panic("strByte of non-string")
}

// mkStrBytes builds a string from byte values (copying), concrete when possible.
func mkStrBytes(b []Value) Value {
	sym := false
	for i := range b {
		if b[i].R != nil {
			sym = true
			break
		}
	}
	if !sym {
		buf := make([]byte, len(b))
		for i := range b {
			buf[i] = byte(b[i].N)
		}
		return mkStr(string(buf))
	}
	cp := make([]Value, len(b))
	copy(cp, b)
	return Value{K: KStr, R: &SymStr{cp}}
}

func concStr(v Value) (string, bool) {
	if v.R == nil {
		return "", true
	}
	s, ok := v.R.(string)
	return s, ok
}

// ---- zero values

func isNamedStructOrArray(t types.Type) bool {
	switch t.Underlying().(type) {
	case *types.Struct, *types.Array:
		return true
	}
	return false
}

func intWidth(b *types.Basic) uint8 {
	switch b.Kind() {
	case types.Int8, types.Uint8:
		return 8
	case types.Int16, types.Uint16:
		return 16
	case types.Int32, types.Uint32:
		return 32
	case types.Int, types.Uint, types.Int64, types.Uint64, types.Uintptr, types.UntypedInt, types.UntypedRune:
		return 64
	}
	return 0
}

func isSigned(t types.Type) bool {
	b, ok := t.Underlying().(*types.Basic)
	if !ok {
		return false
	}
	return b.Info()&types.IsInteger != 0 && b.Info()&types.IsUnsigned == 0
}

func zero(t types.Type) Value {
	switch t := t.Underlying().(type) {
	case *types.Basic:
		switch {
		case t.Kind() == types.UnsafePointer:
			return Value{K: KPtr}
		case t.Info()&types.IsBoolean != 0:
			return Value{K: KBool}
		case t.Info()&types.IsInteger != 0:
			return Value{K: KInt, W: intWidth(t)}
		case t.Info()&types.IsFloat != 0:
			w := uint8(64)
			if t.Kind() == types.Float32 {
				w = 32
			}
			return Value{K: KFloat, W: w}
		case t.Info()&types.IsComplex != 0:
			return Value{K: KComplex, R: complex(0, 0)}
		case t.Info()&types.IsString != 0:
			return Value{K: KStr, R: ""}
		case t.Kind() == types.UntypedNil:
			return Value{}
		}
		panic(fmt.Sprintf("zero: basic %v", t))
	case *types.Pointer:
		return Value{K: KPtr}
	case *types.Slice:
		return Value{K: KSlice}
	case *types.Map:
		return Value{K: KMap}
	case *types.Chan:
		return Value{K: KChan}
	case *types.Signature:
		return Value{K: KFunc}
	case *types.Interface:
		return Value{K: KIface}
	case *types.Struct:
		n := t.NumFields()
		a := make([]Value, n)
		for i := 0; i < n; i++ {
			a[i] = zero(t.Field(i).Type())
		}
		return Value{K: KAgg, R: a}
	case *types.Array:
		n := int(t.Len())
		a := make([]Value, n)
		if n > 0 {
			z := zero(t.Elem())
			if z.K == KAgg {
				for i := range a {
					a[i] = zero(t.Elem())
				}
			} else {
				for i := range a {
					a[i] = z
				}
			}
		}
		return Value{K: KAgg, R: a}
	case *types.Tuple:
		n := t.Len()
		a := make([]Value, n)
		for i := 0; i < n; i++ {
			a[i] = zero(t.At(i).Type())
		}
		return Value{K: KAgg, R: a}
	}
	panic(fmt.Sprintf("zero: unhandled type %v (%T)", t, t))
}

// copyVal returns a copy of v with value semantics (aggregates are deep-copied).
func copyVal(v Value) Value {
	if v.K != KAgg {
		return v
	}
	src := v.R.([]Value)
	dst := make([]Value, len(src))
	for i := range src {
		if src[i].K == KAgg {
			dst[i] = copyVal(src[i])
		} else {
			dst[i] = src[i]
		}
	}
	return Value{K: KAgg, R: dst}
}

// constValue converts an ssa.Const.
func constValue(c *ssa.Const) Value {
	t := c.Type()
	if c.Value == nil {
		if tp, ok := t.(*types.TypeParam); ok {
			_ = tp
			panic("constValue: type parameter zero (generic not instantiated)")
		}
		return zero(t)
	}
	if b, ok := t.Underlying().(*types.Basic); ok {
		switch {
		case b.Info()&types.IsBoolean != 0:
			return mkBool(constant.BoolVal(c.Value))
		case b.Info()&types.IsInteger != 0:
			w := intWidth(b)
			if b.Info()&types.IsUnsigned != 0 {
				u, _ := constant.Uint64Val(constant.ToInt(c.Value))
				return mkInt(w, u)
			}
			i, _ := constant.Int64Val(constant.ToInt(c.Value))
			return mkInt(w, uint64(i))
		case b.Info()&types.IsFloat != 0:
			f, _ := constant.Float64Val(c.Value)
			w := uint8(64)
			if b.Kind() == types.Float32 {
				w = 32
				f = float64(float32(f))
			}
			return Value{K: KFloat, W: w, N: math.Float64bits(f)}
		case b.Info()&types.IsString != 0:
			if c.Value.Kind() == constant.String {
				return mkStr(constant.StringVal(c.Value))
			}
			// rune constant converted to string
			i, _ := constant.Int64Val(constant.ToInt(c.Value))
			return mkStr(string(rune(i)))
		case b.Info()&types.IsComplex != 0:
			re, _ := constant.Float64Val(constant.Real(c.Value))
			im, _ := constant.Float64Val(constant.Imag(c.Value))
			return Value{K: KComplex, R: complex(re, im)}
		}
	}
	panic(fmt.Sprintf("constValue: unhandled %v : %v", c, t))
}

func (v Value) String() string { return fmtValue(v, 0) }

func fmtValue(v Value, depth int) string {
	if depth > 4 {
		return "..."
	}
	switch v.K {
	case KNil:
		return "<nil>"
	case KInt:
		if t := v.term(); t != nil {
			return "sym(" + t.String() + ")"
		}
		return fmt.Sprintf("%d", v.N)
	case KBool:
		if t := v.term(); t != nil {
			return "sym(" + t.String() + ")"
		}
		return fmt.Sprintf("%v", v.N != 0)
	case KFloat:
		return fmt.Sprintf("%g", math.Float64frombits(v.N))
	case KStr:
		if s, ok := v.R.(string); ok {
			return fmt.Sprintf("%q", s)
		}
		if v.R == nil {
			return `""`
		}
		return fmt.Sprintf("symstr[%d]", len(v.R.(*SymStr).b))
	case KPtr:
		if v.R == nil {
			return "nilptr"
		}
		return "&" + fmtValue(*v.ptr(), depth+1)
	case KSlice, KAgg:
		var sb strings.Builder
		if v.K == KSlice {
			sb.WriteString("[]")
		}
		sb.WriteByte('{')
		var xs []Value
		if v.R != nil {
			xs = v.R.([]Value)
		}
		for i, x := range xs {
			if i > 0 {
				sb.WriteByte(' ')
			}
			if i > 40 {
				sb.WriteString("...")
				break
			}
			sb.WriteString(fmtValue(x, depth+1))
		}
		sb.WriteByte('}')
		return sb.String()
	case KIface:
		if v.R == nil {
			return "nil-iface"
		}
		return fmt.Sprintf("iface(%v: %s)", v.iface().T, fmtValue(v.iface().V, depth+1))
	case KFunc:
		return fmt.Sprintf("func(%v)", v.R)
	case KMap:
		return "map"
	case KChan:
		return "chan"
	}
	return kindNames[v.K]
}
