package main

import (
	"bufio"
	"bytes"
	"encoding/json"
	"fmt"
	"os"
	"os/exec"
	"path/filepath"
	"regexp"
	"sort"
	"strings"
	"time"

	"golang.org/x/tools/go/ssa"
)

// HarnessSpec registers one harness function of one property.
type HarnessSpec struct {
	NoisyNative bool // native runs depend on goroutine scheduling, real time or allocator state: a native-only failure on a witness path stays INCONCLUSIVE
	Name    string // harness function name
	Mod     string // module dir relative to /repo ("" or "publish")
	Pkg     string // package pattern relative to module ("." or "./dns")
	MinTier int    // 0: quick and thorough, 1: thorough only
	Labels  []string // labels that must be reached (vacuity guard)
	Quick, Thorough TierOpts
	Twin    bool // reachability twin: must produce a violation
	Race    bool // native replay under the Go race detector (-race)
}

type TierOpts struct {
	MaxPaths  int64
	TimeoutS  int
	LoopLimit int
	Fuel      int64
}

func (prog *Program) harnessFn(name string) *ssa.Function {
	for _, p := range prog.ssa.AllPackages() {
		if !strings.HasPrefix(p.Pkg.Path(), "github.com/c2FmZQ/ech") {
			continue
		}
		if f := p.Func(name); f != nil {
			return f
		}
	}
	return nil
}

type HarnessResult struct {
	Spec       HarnessSpec
	Stats      ExploreStats
	Solver     SolverStats
	Violations []*Violation
	Witnesses  []*Witness
	Samples    []string
	Funcs      []string
	Notes      map[string]int
	Opaque     map[string]int
	WallS      float64
	AssertQ    int64
	AssertUnsat int64
	Confirmed  []*Violation // natively reproduced
	Spurious   []*Violation
	WitnessOK  int
	WitnessBad []string
	Cross      [4]int
	Retried    int64
}

func runHarness(prog *Program, spec HarnessSpec, tier int, seed int64, workers int, trace bool) *HarnessResult {
	to := spec.Quick
	if tier == 1 {
		to = spec.Thorough
		if to.LoopLimit == 0 {
			to.LoopLimit = spec.Quick.LoopLimit
		}
	}
	if to.TimeoutS == 0 {
		// default time budgets per harness; exhausting one is reported as INCONCLUSIVE
		to.TimeoutS = 420
		if tier == 1 {
			to.TimeoutS = 900
		}
	}
	opts := ExploreOpts{Workers: workers, MaxPaths: to.MaxPaths, SolverBin: "z3", SolverTimeout: 10000,
		Fuel: to.Fuel, LoopLimit: to.LoopLimit, Trace: trace}
	if tier == 1 {
		opts.SolverTimeout = 60000
	}
	if to.TimeoutS > 0 {
		opts.Timeout = time.Duration(to.TimeoutS) * time.Second
	}
	if opts.LoopLimit == 0 {
		opts.LoopLimit = 70000
	}
	ex := NewExplorer(prog, spec.Name, tier, opts)
	ex.seed = seed
	t0 := time.Now()
	ex.Run()
	res := &HarnessResult{Spec: spec, Stats: ex.stats, Solver: ex.solver, Samples: ex.samples, Notes: ex.notes, Opaque: ex.opaque,
		WallS: time.Since(t0).Seconds(), AssertQ: ex.assertQueries, AssertUnsat: ex.assertUnsat,
		Cross: [4]int{ex.crossDone, ex.crossAgree, ex.crossDisagree, ex.crossUnknown}, Retried: ex.retried}
	if trace {
		type kv struct {
			k string
			v int
		}
		var kvs []kv
		for k, v := range ex.forkSites {
			kvs = append(kvs, kv{k, v})
		}
		sort.Slice(kvs, func(i, j int) bool { return kvs[i].v > kvs[j].v })
		for i, e := range kvs {
			if i >= 25 {
				break
			}
			fmt.Fprintf(os.Stderr, "  fork site %8d %s\n", e.v, e.k)
		}
	}
	for _, sig := range ex.vioOrder {
		res.Violations = append(res.Violations, ex.violations[sig]...)
	}
	var labels []string
	for l := range ex.witnesses {
		labels = append(labels, l)
	}
	sort.Strings(labels)
	for _, l := range labels {
		res.Witnesses = append(res.Witnesses, ex.witnesses[l])
	}
	for f := range ex.funcsSeen {
		res.Funcs = append(res.Funcs, f)
	}
	sort.Strings(res.Funcs)
	return res
}

// ---------------------------------------------------------------- native replay

type nativeCase struct {
	ID      string   `json:"id"`
	Harness string   `json:"harness"`
	Nondet  []uint64 `json:"nondet"`
	Tier    int      `json:"tier"`
}

type nativeResult struct {
	ID     string   `json:"id"`
	Start  string   `json:"start"`
	Status string   `json:"status"`
	Label  string   `json:"label"`
	Msg    string   `json:"msg"`
	Obs    []string `json:"obs"`
	Labels []string `json:"labels"`
}

type nativeRunner struct {
	verifDir string
	modDir   string // absolute
	pkg      string
	workDir  string
	bin      string
	race     bool
	seq      int
	buildErr string
	buildS   float64
}

func pkgNameFor(mod, pkg string) string {
	switch {
	case mod == "publish":
		return "publish"
	case pkg == "./dns":
		return "dns"
	}
	return "ech"
}

// build compiles the native replay test binary for one package with the overlay.
func (nr *nativeRunner) build(prog *Program, harnesses []string) error {
	t0 := time.Now()
	defer func() { nr.buildS = time.Since(t0).Seconds() }()
	wd, err := os.MkdirTemp(filepath.Join(nr.verifDir, ".work"), "replay")
	if err != nil {
		return err
	}
	nr.workDir = wd
	pkgDir := filepath.Join(nr.modDir, strings.TrimPrefix(nr.pkg, "./"))
	if nr.pkg == "." {
		pkgDir = nr.modDir
	}
	replace := map[string]string{}
	_ = pkgDir
	for virt, data := range prog.overlay {
		if !strings.HasPrefix(virt, nr.modDir+"/") {
			continue
		}
		if nr.modDir == repoRoot && strings.HasPrefix(virt, repoRoot+"/publish/") {
			continue
		}
		real := filepath.Join(wd, strings.ReplaceAll(strings.TrimPrefix(virt, repoRoot+"/"), "/", "__"))
		if err := os.WriteFile(real, data, 0o644); err != nil {
			return err
		}
		replace[virt] = real
	}
	// the test driver
	var sb strings.Builder
	fmt.Fprintf(&sb, "//go:build verifnative\n\npackage %s\n\nimport (\n\t\"os\"\n\t\"testing\"\n)\n\n", pkgNameFor(filepath.Base(nr.modDirRel()), nr.pkg))
	sb.WriteString("func TestVerifReplay(t *testing.T) {\n\tvReplayMain(os.Getenv(\"VERIF_REPLAY_IN\"), os.Getenv(\"VERIF_REPLAY_OUT\"), map[string]func(){\n")
	for _, h := range harnesses {
		fmt.Fprintf(&sb, "\t\t%q: %s,\n", h, h)
	}
	sb.WriteString("\t})\n}\n")
	drv := filepath.Join(wd, "zz_verif_replay_test.go")
	if err := os.WriteFile(drv, []byte(sb.String()), 0o644); err != nil {
		return err
	}
	replace[filepath.Join(pkgDir, "zz_verif_replay_test.go")] = drv
	ovj, _ := json.Marshal(map[string]any{"Replace": replace})
	ovf := filepath.Join(wd, "overlay.json")
	if err := os.WriteFile(ovf, ovj, 0o644); err != nil {
		return err
	}
	nr.bin = filepath.Join(wd, "replay.test")
	args := []string{"test", "-c", "-vet=off", "-tags", "verifnative", "-overlay", ovf, "-o", nr.bin}
	if nr.race {
		args = append(args, "-race")
	}
	args = append(args, nr.pkg)
	cmd := exec.Command("go", args...)
	cmd.Dir = nr.modDir
	cmd.Env = append(os.Environ(), "GOFLAGS=-mod=mod", "GOPROXY=off")
	out, err := cmd.CombinedOutput()
	if err != nil {
		nr.buildErr = string(out)
		return fmt.Errorf("native build failed: %v\n%s", err, out)
	}
	return nil
}

func (nr *nativeRunner) modDirRel() string {
	rel, _ := filepath.Rel(repoRoot, nr.modDir)
	return rel
}

func (nr *nativeRunner) cleanup() {
	if nr.workDir != "" {
		os.RemoveAll(nr.workDir)
	}
}

// run executes cases; cases that hang or crash the process get status
// "timeout" / "crash".
func (nr *nativeRunner) run(cases []nativeCase, perCase time.Duration) map[string]*nativeResult {
	results := map[string]*nativeResult{}
	if nr.race && len(cases) > 1 {
		// one process per case so that a race report can be attributed
		for _, c := range cases {
			for k, v := range nr.run([]nativeCase{c}, perCase) {
				results[k] = v
			}
		}
		return results
	}
	remaining := cases
	round := 0
	for len(remaining) > 0 {
		round++
		nr.seq++
		in := filepath.Join(nr.workDir, fmt.Sprintf("in%d.json", nr.seq))
		out := filepath.Join(nr.workDir, fmt.Sprintf("out%d.jsonl", nr.seq))
		data, _ := json.Marshal(remaining)
		os.WriteFile(in, data, 0o644)
		cmd := exec.Command(nr.bin, "-test.run", "^TestVerifReplay$", "-test.count=1", "-test.timeout=0")
		cmd.Dir = filepath.Join(nr.modDir, strings.TrimPrefix(nr.pkg, "./"))
		cmd.Env = append(os.Environ(), "VERIF_REPLAY_IN="+in, "VERIF_REPLAY_OUT="+out)
		var outBuf bytes.Buffer
		cmd.Stdout = &outBuf
		cmd.Stderr = &outBuf
		if err := cmd.Start(); err != nil {
			for _, c := range remaining {
				results[c.ID] = &nativeResult{ID: c.ID, Status: "error", Msg: err.Error()}
			}
			return results
		}
		done := make(chan error, 1)
		go func() { done <- cmd.Wait() }()
		// watchdog: progress is a growing output file
		timedOut := false
		lastSize := int64(-1)
		lastChange := time.Now()
	wait:
		for {
			select {
			case <-done:
				break wait
			case <-time.After(100 * time.Millisecond):
				if st, err := os.Stat(out); err == nil && st.Size() != lastSize {
					lastSize = st.Size()
					lastChange = time.Now()
				}
				if time.Since(lastChange) > perCase {
					timedOut = true
					cmd.Process.Kill()
					<-done
					break wait
				}
			}
		}
		// parse
		started := ""
		finished := map[string]bool{}
		if f, err := os.Open(out); err == nil {
			sc := bufio.NewScanner(f)
			sc.Buffer(make([]byte, 1<<20), 1<<26)
			for sc.Scan() {
				var r nativeResult
				if json.Unmarshal(sc.Bytes(), &r) != nil {
					continue
				}
				if r.Start != "" {
					started = r.Start
					continue
				}
				rr := r
				results[r.ID] = &rr
				finished[r.ID] = true
			}
			f.Close()
		}
		if os.Getenv("VERIF_DEBUG_NATIVE") != "" {
			fmt.Fprintln(os.Stderr, "NATIVE OUTPUT:", tail(outBuf.String(), 1500))
		}
		if nr.race && strings.Contains(outBuf.String(), "WARNING: DATA RACE") {
			for _, c := range remaining {
				if r, ok := results[c.ID]; ok {
					r.Status = "race"
					r.Msg = trim(outBuf.String(), 1500)
				}
			}
		}
		var next []nativeCase
		culprit := ""
		if started != "" && !finished[started] {
			culprit = started
		}
		skipping := culprit != ""
		for _, c := range remaining {
			if finished[c.ID] {
				continue
			}
			if c.ID == culprit {
				st := "crash"
				if timedOut {
					st = "timeout"
				}
				results[c.ID] = &nativeResult{ID: c.ID, Status: st, Msg: trim(tail(outBuf.String(), 3000), 3000)}
				skipping = false
				continue
			}
			_ = skipping
			next = append(next, c)
		}
		if culprit == "" && len(next) == len(remaining) {
			// no progress at all: give up
			for _, c := range next {
				results[c.ID] = &nativeResult{ID: c.ID, Status: "error", Msg: "native run made no progress: " + trim(tail(outBuf.String(), 2000), 2000)}
			}
			return results
		}
		remaining = next
	}
	return results
}

func tail(s string, n int) string {
	if len(s) > n {
		return s[len(s)-n:]
	}
	return s
}

// ---------------------------------------------------------------- known findings

type KnownFinding struct {
	Property  string `json:"property"`
	Signature string `json:"signature"` // regexp matched against harness|kind|label|site
	What      string `json:"what"`
}

type KnownFile struct {
	Findings []KnownFinding `json:"findings"`
	Fixed    []string       `json:"fixed"`
}

func loadKnown(verifDir string) KnownFile {
	var kf KnownFile
	data, err := os.ReadFile(filepath.Join(verifDir, "known_findings.json"))
	if err == nil {
		json.Unmarshal(data, &kf)
	}
	return kf
}

func (kf KnownFile) match(prop, sig string) *KnownFinding {
	for i := range kf.Findings {
		f := &kf.Findings[i]
		if f.Property != prop {
			continue
		}
		if re, err := regexp.Compile(f.Signature); err == nil && re.MatchString(sig) {
			return f
		}
	}
	return nil
}
