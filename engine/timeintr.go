package main

import (
	"go/types"

	"golang.org/x/tools/go/ssa"
)

// Virtual clock: time.Now and timers use the scheduler's clock, which only
// advances when every goroutine is blocked.

const unixToInternal int64 = (1969*365 + 1969/4 - 1969/100 + 1969/400) * 86400
const virtualEpoch int64 = 1_700_000_000 // seconds since 1970 at virtual time 0

func (g *Goroutine) timeValue(ns int64) Value {
	sec := virtualEpoch + ns/1e9
	nsec := ns % 1e9
	// wall: hasMonotonic=0, seconds field unused, nsec in the low 30 bits
	return mkAgg([]Value{mkInt(64, uint64(nsec)), mkInt(64, uint64(sec+unixToInternal)), Value{K: KPtr}})
}

type timerState struct {
	vt      *vtimer
	ch      *Chan
	f       Value
	stopped bool
}

func addTimeIntrinsics(m map[string]Intrinsic) {
	m["time.Now"] = func(g *Goroutine, c *frame, fn *ssa.Function, a []Value) (Value, bool) {
		return g.timeValue(g.p.sched.now), true
	}
	m["time.runtimeNano"] = func(g *Goroutine, c *frame, fn *ssa.Function, a []Value) (Value, bool) {
		return mkInt(64, uint64(g.p.sched.now)), true
	}
	m["time.Sleep"] = func(g *Goroutine, c *frame, fn *ssa.Function, a []Value) (Value, bool) {
		d := g.forceInt(a[0])
		if d <= 0 {
			g.yield()
			return Value{}, true
		}
		fired := false
		g.p.sched.addTimer(d, func(*Goroutine) { fired = true })
		g.block("sleep", func() bool { return fired })
		return Value{}, true
	}
	newTimer := func(g *Goroutine, d int64, f Value) Value {
		prog := g.w.prog
		tt := prog.namedType("time", "Timer")
		st := tt.Underlying().(*types.Struct)
		fields := make([]Value, st.NumFields())
		for i := range fields {
			fields[i] = zero(st.Field(i).Type())
		}
		cell := &Value{K: KAgg, R: fields}
		ts := &timerState{f: f}
		if f.R == nil {
			timeT := prog.namedType("time", "Time")
			ts.ch = newChan(1, timeT)
			fields[0] = Value{K: KChan, R: ts.ch}
		}
		ts.vt = g.p.sched.addTimer(d, func(cur *Goroutine) {
			if ts.ch != nil {
				if len(ts.ch.buf) < ts.ch.cap {
					cur.trySend(nil, ts.ch, cur.timeValue(cur.p.sched.now))
				}
			} else {
				cur.spawn(nil, ts.f, nil)
			}
		})
		g.p.side[cell] = ts
		return mkPtr(cell)
	}
	m["time.NewTimer"] = func(g *Goroutine, c *frame, fn *ssa.Function, a []Value) (Value, bool) {
		return newTimer(g, g.forceInt(a[0]), Value{K: KFunc}), true
	}
	m["time.AfterFunc"] = func(g *Goroutine, c *frame, fn *ssa.Function, a []Value) (Value, bool) {
		return newTimer(g, g.forceInt(a[0]), a[1]), true
	}
	m["time.After"] = func(g *Goroutine, c *frame, fn *ssa.Function, a []Value) (Value, bool) {
		t := newTimer(g, g.forceInt(a[0]), Value{K: KFunc})
		return t.ptr().agg()[0], true
	}
	m["time.NewTicker"] = func(g *Goroutine, c *frame, fn *ssa.Function, a []Value) (Value, bool) {
		d := g.forceInt(a[0])
		if d <= 0 {
			panic(&goPanic{val: g.w.prog.newError("non-positive interval for NewTicker"), site: c.stableSite(), msg: "non-positive interval for NewTicker"})
		}
		prog := g.w.prog
		tt := prog.namedType("time", "Ticker")
		st := tt.Underlying().(*types.Struct)
		fields := make([]Value, st.NumFields())
		for i := range fields {
			fields[i] = zero(st.Field(i).Type())
		}
		cell := &Value{K: KAgg, R: fields}
		ts := &timerState{}
		ts.ch = newChan(1, prog.namedType("time", "Time"))
		fields[0] = Value{K: KChan, R: ts.ch}
		var arm func()
		arm = func() {
			ts.vt = g.p.sched.addTimer(d, func(cur *Goroutine) {
				if len(ts.ch.buf) < ts.ch.cap || firstActive(&ts.ch.recvq) != nil {
					cur.trySend(nil, ts.ch, cur.timeValue(cur.p.sched.now))
				}
				if !ts.stopped {
					arm()
				}
			})
		}
		arm()
		g.p.side[cell] = ts
		return mkPtr(cell), true
	}
	m["(*time.Ticker).Stop"] = func(g *Goroutine, c *frame, fn *ssa.Function, a []Value) (Value, bool) {
		if ts, ok := g.p.side[a[0].ptr()].(*timerState); ok {
			ts.stopped = true
			ts.vt.active = false
		}
		return Value{}, true
	}
	m["(*time.Timer).Stop"] = func(g *Goroutine, c *frame, fn *ssa.Function, a []Value) (Value, bool) {
		ts, ok := g.p.side[a[0].ptr()].(*timerState)
		if !ok {
			return mkBool(false), true
		}
		was := ts.vt.active
		ts.vt.active = false
		return mkBool(was), true
	}
	m["(*time.Timer).Reset"] = func(g *Goroutine, c *frame, fn *ssa.Function, a []Value) (Value, bool) {
		ts, ok := g.p.side[a[0].ptr()].(*timerState)
		if !ok {
			g.p.unsupported("Reset of unknown timer")
		}
		was := ts.vt.active
		ts.vt.active = false
		fire := ts.vt.fire
		ts.vt = g.p.sched.addTimer(g.forceInt(a[1]), fire)
		return mkBool(was), true
	}
}
