package main

// Engine-side implementation of the harness API (functions v* declared in zz_verif_api*.go).

import (
	"fmt"
	"strings"

	"golang.org/x/tools/go/ssa"
)

var harnessAPI map[string]Intrinsic

func init() {
	harnessAPI = map[string]Intrinsic{
		"vSymbolic": func(g *Goroutine, c *frame, fn *ssa.Function, a []Value) (Value, bool) { return mkBool(true), true },
		"vTier": func(g *Goroutine, c *frame, fn *ssa.Function, a []Value) (Value, bool) {
			return mkInt(64, uint64(g.p.ex.tier)), true
		},
		"vByte":   func(g *Goroutine, c *frame, fn *ssa.Function, a []Value) (Value, bool) { return g.p.nondetInt(8, "b"), true },
		"vUint16": func(g *Goroutine, c *frame, fn *ssa.Function, a []Value) (Value, bool) { return g.p.nondetInt(16, "h"), true },
		"vUint32": func(g *Goroutine, c *frame, fn *ssa.Function, a []Value) (Value, bool) { return g.p.nondetInt(32, "w"), true },
		"vUint64": func(g *Goroutine, c *frame, fn *ssa.Function, a []Value) (Value, bool) { return g.p.nondetInt(64, "q"), true },
		"vBool": func(g *Goroutine, c *frame, fn *ssa.Function, a []Value) (Value, bool) {
			t := g.p.newVar(8, "B")
			g.p.nondet = append(g.p.nondet, nondetRec{t: t, kind: "bool"})
			// encode as byte in {0,1}
			g.p.assert(g.p.ts.Ule(t, g.p.ts.Const(8, 1)))
			return mkTermBool(g.p.ts.Eq(t, g.p.ts.Const(8, 1))), true
		},
		"vBytes": func(g *Goroutine, c *frame, fn *ssa.Function, a []Value) (Value, bool) {
			n := int(g.forceInt(a[0]))
			out := make([]Value, n)
			for i := range out {
				out[i] = g.p.nondetInt(8, "b")
			}
			return mkSlice(out), true
		},
		// vInt(lo,hi): a choice that forks immediately (no solver variable)
		"vInt": func(g *Goroutine, c *frame, fn *ssa.Function, a []Value) (Value, bool) {
			lo, hi := g.forceInt(a[0]), g.forceInt(a[1])
			if hi < lo {
				g.p.abort("assume", "empty vInt range")
			}
			k := g.p.choose(int(hi - lo + 1))
			v := lo + int64(k)
			g.p.nondet = append(g.p.nondet, nondetRec{c: uint64(v), kind: "int"})
			return mkInt(64, uint64(v)), true
		},
		"vAssume": func(g *Goroutine, c *frame, fn *ssa.Function, a []Value) (Value, bool) {
			g.p.assume(a[0])
			return Value{}, true
		},
		"vAssert": func(g *Goroutine, c *frame, fn *ssa.Function, a []Value) (Value, bool) {
			label, _ := concStr(a[1])
			g.p.check(c, a[0], label)
			return Value{}, true
		},
		"vFail": func(g *Goroutine, c *frame, fn *ssa.Function, a []Value) (Value, bool) {
			label, _ := concStr(a[0])
			g.p.check(c, mkBool(false), label)
			return Value{}, true
		},
		"vReach": func(g *Goroutine, c *frame, fn *ssa.Function, a []Value) (Value, bool) {
			label, _ := concStr(a[0])
			g.p.labels = append(g.p.labels, label)
			return Value{}, true
		},
		"vObserve": func(g *Goroutine, c *frame, fn *ssa.Function, a []Value) (Value, bool) {
			for _, x := range a[0].slice() {
				g.p.obs = append(g.p.obs, x)
			}
			return Value{}, true
		},
		"vRaceDetect": func(g *Goroutine, c *frame, fn *ssa.Function, a []Value) (Value, bool) {
			if g.forceBool(a[0]) {
				g.p.race = newRaceMon()
			} else {
				g.p.race = nil
			}
			return Value{}, true
		},
		// vRaces reports the number of distinct data races found so far and records each as a violation.
		"vRaces": func(g *Goroutine, c *frame, fn *ssa.Function, a []Value) (Value, bool) {
			if g.p.race == nil {
				return mkInt(64, 0), true
			}
			for _, f := range g.p.race.found {
				g.p.siteOverride = "race"
				g.p.violation(c, "race", "data race: "+f, f, nil)
			}
			n := len(g.p.race.found)
			g.p.race.found = nil
			return mkInt(64, uint64(n)), true
		},
		// vPreemptions(k): with schedule exploration on, at most k switches away from a
		// goroutine that could have continued (context-bounded exploration).
		"vPreemptions": func(g *Goroutine, c *frame, fn *ssa.Function, a []Value) (Value, bool) {
			g.p.preemptBound = true
			g.p.preemptLeft = int(g.forceInt(a[0]))
			return Value{}, true
		},
		"vStall": func(g *Goroutine, c *frame, fn *ssa.Function, a []Value) (Value, bool) {
			g.yield()
			return Value{}, true
		},
		"vYield": func(g *Goroutine, c *frame, fn *ssa.Function, a []Value) (Value, bool) {
			g.yield()
			return Value{}, true
		},
		// vQuiesce lets every other goroutine run until all are blocked or done and
		// returns the number of goroutines (other than the caller) still alive.
		"vQuiesce": func(g *Goroutine, c *frame, fn *ssa.Function, a []Value) (Value, bool) {
			s := g.p.sched
			g.p.quiescing = true
			defer func() { g.p.quiescing = false }()
			for i := 0; i < 10000; i++ {
				others := false
				for _, r := range s.runnable() {
					if r != g {
						others = true
					}
				}
				if !others {
					break
				}
				g.yield()
			}
			return mkInt(64, uint64(s.liveOthers())), true
		},
		// vSchedPoints(n): n >= 2 makes go statements, channel operations, select and atomics scheduling points (under vSchedForks)
		"vSchedPoints": func(g *Goroutine, c *frame, fn *ssa.Function, a []Value) (Value, bool) {
			g.p.schedPoints = int(g.forceInt(a[0]))
			return Value{}, true
		},
		// vDelays(k): delay-bounded schedule exploration - every schedule that deviates at most k times from the default scheduler
		"vDelays": func(g *Goroutine, c *frame, fn *ssa.Function, a []Value) (Value, bool) {
			g.p.delayBound = true
			g.p.delayLeft = int(g.forceInt(a[0]))
			return Value{}, true
		},
		"vSchedForks": func(g *Goroutine, c *frame, fn *ssa.Function, a []Value) (Value, bool) {
			g.p.schedForks = g.forceBool(a[0])
			return Value{}, true
		},
		"vAdvance": func(g *Goroutine, c *frame, fn *ssa.Function, a []Value) (Value, bool) {
			// advance virtual time by d, firing timers on the way
			d := g.forceInt(a[0])
			fired := false
			g.p.sched.addTimer(d, func(*Goroutine) { fired = true })
			g.block("advance", func() bool { return fired })
			return Value{}, true
		},
		// vAllocated() int64: bytes allocated so far by make, new and append growth in interpreted code
		"vAllocated": func(g *Goroutine, c *frame, fn *ssa.Function, a []Value) (Value, bool) {
			return mkInt(64, uint64(g.p.allocBytes)), true
		},
		"vNowNanos": func(g *Goroutine, c *frame, fn *ssa.Function, a []Value) (Value, bool) {
			return mkInt(64, uint64(g.p.sched.now)), true
		},
		// vKey(i) -> (priv, pub []byte): symbolic mode uses fixed distinct patterns.
		"vKey": func(g *Goroutine, c *frame, fn *ssa.Function, a []Value) (Value, bool) {
			i := g.forceInt(a[0])
			priv := make([]Value, 32)
			pub := make([]Value, 32)
			for j := 0; j < 32; j++ {
				priv[j] = mkInt(8, uint64(0x40+i))
				pub[j] = mkInt(8, uint64(0x80+i))
			}
						return tup(mkSlice(priv), mkSlice(pub)), true
		},
		// vHpkeSetupSender(priv, pub []byte, kdf, aead uint16, info []byte) (enc []byte, handle int)
		"vHpkeSetupSender": func(g *Goroutine, c *frame, fn *ssa.Function, a []Value) (Value, bool) {
			p := g.p
			priv, ok := concBytes(a[0].slice())
			if !ok {
				p.unsupported("vHpkeSetupSender: symbolic private key")
			}
			kdf, aead := uint64(g.forceInt(a[2])), uint64(g.forceInt(a[3]))
			enc := p.freshBytes(32, "enc")
			// an honest encapsulated key is never the all-zero point
			// an honest encapsulated key is never a low-order point (modelled: u=0, u=1)
			nz := p.ts.False
			for _, e := range enc[1:] {
				nz = p.ts.Or(nz, p.ts.Not(p.ts.Eq(e.term(), p.ts.Const(8, 0))))
			}
			nz = p.ts.Or(nz, p.ts.Ult(p.ts.Const(8, 1), enc[0].term()))
			p.assert(nz)
			s := &hpkeSender{priv: priv, kdf: kdf, aead: aead, info: cloneVals(a[4].slice()), enc: enc}
			h := p.hp()
			h.senders = append(h.senders, s)
			return tup(mkSlice(cloneVals(enc)), mkInt(64, uint64(len(h.senders)-1))), true
		},
		// vHpkeSeal(handle int, aad, pt []byte) []byte
		"vHpkeSeal": func(g *Goroutine, c *frame, fn *ssa.Function, a []Value) (Value, bool) {
			p := g.p
			h := p.hp()
			idx := int(g.forceInt(a[0]))
			if idx < 0 || idx >= len(h.senders) {
				p.unsupported("vHpkeSeal: bad handle")
			}
			s := h.senders[idx]
			pt := cloneVals(a[2].slice())
			ct := p.freshBytes(len(pt)+16, "ct")
			// ideal AEAD: two seals (distinct nonce or key) never yield the same ciphertext+tag
			for _, prev := range h.seals {
				if len(prev.ct) != len(ct) {
					continue
				}
				ne := p.ts.False
				for i := range ct {
					ne = p.ts.Or(ne, p.ts.Not(p.ts.Eq(ct[i].term(), prev.ct[i].term())))
				}
				p.assert(ne)
			}
			h.seals = append(h.seals, &hpkeSeal{s: s, seq: s.seq, aad: cloneVals(a[1].slice()), ct: ct, pt: pt})
			s.seq++
			return mkSlice(cloneVals(ct)), true
		},
		"vHpkeOpens": func(g *Goroutine, c *frame, fn *ssa.Function, a []Value) (Value, bool) {
			return mkInt(64, uint64(g.p.hp().opens)), true
		},
		// vLimitCiphertextLengths(n): cut paths that derive more than n lengths from
		// ciphertext / encapsulated-key bytes (a stated bound, reported as "cut").
		"vLimitCiphertextLengths": func(g *Goroutine, c *frame, fn *ssa.Function, a []Value) (Value, bool) {
			g.p.ctLenLimit = int(g.forceInt(a[0]))
			return Value{}, true
		},
		"vNote": func(g *Goroutine, c *frame, fn *ssa.Function, a []Value) (Value, bool) {
			return Value{}, true
		},
	}
}


func (p *Path) nondetInt(w uint8, kind string) Value {
	t := p.newVar(w, kind)
	p.nondet = append(p.nondet, nondetRec{t: t, kind: kind})
	return Value{K: KInt, W: w, R: t}
}

// assume restricts the path to cond.
func (p *Path) assume(cond Value) {
	if cond.R == nil {
		if cond.N == 0 {
			p.abort("assume", "")
		}
		return
	}
	t := cond.term()
	if v, ok := p.decided[t]; ok {
		if !v {
			p.abort("assume", "")
		}
		return
	}
	switch p.feasible(t) {
	case Unsat:
		p.abort("assume", "")
	case Unknown:
		p.ex.noteUnknown()
	}
	p.assert(t)
	p.decided[t] = true
	if t.op == OpEq && t.b.isConst() && t.a.w > 0 {
		p.bound[t.a] = t.b.k
	}
}

// check is the assertion primitive: a violation is recorded when ¬cond is feasible.
func (p *Path) check(fr *frame, cond Value, label string) {
	p.nchecks++
	if cond.R == nil {
		if cond.N != 0 {
			return
		}
		p.violation(fr, "assert", label, "", nil)
		p.abort("violation", label)
	}
	t := cond.term()
	if v, ok := p.decided[t]; ok && v {
		return
	}
	nt := p.ts.Not(t)
	r := p.feasible(nt)
	p.ex.countAssertQuery(r)
	if p.ex.tier == 1 && r != Unknown {
		p.crossCheck(nt, r, label)
	}
	switch r {
	case Sat:
		p.violation(fr, "assert", label, "", nt)
	case Unknown:
		p.ex.noteInconclusive("solver unknown on assertion " + label)
	}
	if r != Unsat {
		// continue on the side where the assertion holds, if any
		if p.feasible(t) == Unsat {
			p.abort("violation", label)
		}
		p.assert(t)
	}
	p.decided[t] = true
}

func (p *Path) violation(fr *frame, kind, label, msg string, extra *Term) {
	m, ok := p.model(extra)
	if !ok {
		p.ex.noteInconclusive("no model for violation " + label)
		return
	}
	site := p.siteOverride
	p.siteOverride = ""
	if site == "" && kind != "assert" && fr != nil {
		site = fr.stableSite()
	}
	v := &Violation{Harness: p.ex.harness, Kind: kind, Label: label, Site: site, Msg: msg, Model: m,
		Nondet: p.nondetVector(m), Trace: append([]Decision{}, p.trace...)}
	v.Obs = p.renderObs(m)
	p.ex.addViolation(v)
}

func (p *Path) renderObs(m map[string]uint64) []string {
	memo := map[*Term]uint64{}
	var out []string
	for _, o := range p.obs {
		out = append(out, renderObsValue(o, m, memo))
	}
	return out
}

func evalByte(v Value, m map[string]uint64, memo map[*Term]uint64) byte {
	if t := v.term(); t != nil {
		return byte(t.eval(m, memo))
	}
	return byte(v.N)
}

func renderObsValue(v Value, m map[string]uint64, memo map[*Term]uint64) string {
	if v.K == KIface {
		ifc := v.iface()
		if ifc == nil {
			return "nil"
		}
		signed := isSigned(ifc.T)
		x := ifc.V
		switch x.K {
		case KInt:
			n := x.N
			if t := x.term(); t != nil {
				n = t.eval(m, memo)
			}
			if signed {
				return fmt.Sprintf("%d", sext64(n, x.W))
			}
			return fmt.Sprintf("%d", n)
		case KBool:
			n := x.N
			if t := x.term(); t != nil {
				n = t.eval(m, memo)
			}
			return fmt.Sprintf("%v", n != 0)
		case KStr:
			b := strBytes(x)
			buf := make([]byte, len(b))
			for i := range b {
				buf[i] = evalByte(b[i], m, memo)
			}
			return fmt.Sprintf("%q", string(buf))
		case KSlice:
			var sb strings.Builder
			sb.WriteString("x")
			for _, e := range x.slice() {
				if e.K != KInt {
					return "<slice>"
				}
				fmt.Fprintf(&sb, "%02x", evalByte(e, m, memo))
			}
			return sb.String()
		}
		return "<" + kindNames[x.K] + ">"
	}
	return "<?>"
}

func (ex *Explorer) countAssertQuery(r SatResult) {
	ex.mu.Lock()
	ex.assertQueries++
	if r == Unsat {
		ex.assertUnsat++
	}
	ex.mu.Unlock()
}

// crossCheck re-decides an assertion query with two other solvers (thorough tier,
// the first 40 assertion queries of each harness).
func (p *Path) crossCheck(nt *Term, r SatResult, label string) {
	ex := p.ex
	ex.mu.Lock()
	if ex.crossDone >= 40 {
		ex.mu.Unlock()
		return
	}
	ex.crossDone++
	ex.mu.Unlock()
	all := append(append([]*Term{}, p.pc...), nt)
	for _, bin := range []string{"z3-new", "cvc5"} {
		r2 := StandaloneCheck(bin, all, 60000)
		ex.mu.Lock()
		switch {
		case r2 == Unknown:
			ex.crossUnknown++
		case r2 == r:
			ex.crossAgree++
		default:
			ex.crossDisagree++
			ex.stats.Inconclusive = append(ex.stats.Inconclusive, fmt.Sprintf("solver disagreement on assertion %q: z3=%v %s=%v", label, r, bin, r2))
		}
		ex.mu.Unlock()
	}
}
