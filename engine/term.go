package main

// Hash-consed SMT terms (QF_BV + Bool) with light simplification.
// One TermStore per worker; terms are never shared between workers.

import (
	"fmt"
	"math/bits"
	"strings"
)

type Op uint8

const (
	OpConst Op = iota // bit-vector constant (k) or bool constant (w==0,k in {0,1})
	OpVar             // free variable (name)
	OpNot             // bvnot / not
	OpNeg
	OpAnd // bvand / and
	OpOr
	OpXor
	OpAdd
	OpSub
	OpMul
	OpUDiv
	OpURem
	OpSDiv
	OpSRem
	OpShl
	OpLShr
	OpAShr
	OpConcat
	OpExtract // k = hi<<8 | lo
	OpZExt    // result width w
	OpSExt
	OpIte
	OpEq
	OpUlt
	OpUle
	OpSlt
	OpSle
)

var opNames = [...]string{"const", "var", "not", "bvneg", "and", "or", "xor", "bvadd", "bvsub", "bvmul", "bvudiv", "bvurem", "bvsdiv", "bvsrem", "bvshl", "bvlshr", "bvashr", "concat", "extract", "zext", "sext", "ite", "=", "bvult", "bvule", "bvslt", "bvsle"}

type Term struct {
	op      Op
	w       uint8 // 0 = Bool
	a, b, c *Term
	k       uint64
	name    string
	id      uint32
	nvars   uint8 // saturating count of distinct-ish vars (approx, for heuristics)
}

type termKey struct {
	op      Op
	w       uint8
	a, b, c uint32
	k       uint64
	name    string
}

type TermStore struct {
	tab   map[termKey]*Term
	next  uint32
	True  *Term
	False *Term
}

func NewTermStore() *TermStore {
	ts := &TermStore{tab: make(map[termKey]*Term, 1<<12), next: 1}
	ts.True = ts.mk(OpConst, 0, nil, nil, nil, 1, "")
	ts.False = ts.mk(OpConst, 0, nil, nil, nil, 0, "")
	return ts
}

func tid(t *Term) uint32 {
	if t == nil {
		return 0
	}
	return t.id
}

func (ts *TermStore) mk(op Op, w uint8, a, b, c *Term, k uint64, name string) *Term {
	key := termKey{op, w, tid(a), tid(b), tid(c), k, name}
	if t, ok := ts.tab[key]; ok {
		return t
	}
	t := &Term{op: op, w: w, a: a, b: b, c: c, k: k, name: name, id: ts.next}
	ts.next++
	n := 0
	if op == OpVar {
		n = 1
	}
	for _, x := range []*Term{a, b, c} {
		if x != nil {
			n += int(x.nvars)
		}
	}
	if n > 255 {
		n = 255
	}
	t.nvars = uint8(n)
	ts.tab[key] = t
	return t
}

func mask(w uint8) uint64 {
	if w >= 64 {
		return ^uint64(0)
	}
	return (uint64(1) << w) - 1
}

func sext64(v uint64, w uint8) int64 {
	if w >= 64 {
		return int64(v)
	}
	sh := 64 - uint(w)
	return int64(v<<sh) >> sh
}

func (t *Term) isConst() bool { return t.op == OpConst }

func (ts *TermStore) Const(w uint8, v uint64) *Term {
	return ts.mk(OpConst, w, nil, nil, nil, v&mask(w), "")
}
func (ts *TermStore) Bool(b bool) *Term {
	if b {
		return ts.True
	}
	return ts.False
}
func (ts *TermStore) Var(w uint8, name string) *Term {
	return ts.mk(OpVar, w, nil, nil, nil, 0, name)
}

// ---- boolean connectives

func (ts *TermStore) Not(a *Term) *Term {
	if a.w != 0 {
		panic("Not on bv")
	}
	if a.isConst() {
		return ts.Bool(a.k == 0)
	}
	if a.op == OpNot {
		return a.a
	}
	return ts.mk(OpNot, 0, a, nil, nil, 0, "")
}

func (ts *TermStore) And(a, b *Term) *Term {
	if a.w != 0 || b.w != 0 {
		panic("And on bv")
	}
	if a.isConst() {
		if a.k == 0 {
			return ts.False
		}
		return b
	}
	if b.isConst() {
		if b.k == 0 {
			return ts.False
		}
		return a
	}
	if a == b {
		return a
	}
	if a.id > b.id {
		a, b = b, a
	}
	return ts.mk(OpAnd, 0, a, b, nil, 0, "")
}

func (ts *TermStore) Or(a, b *Term) *Term {
	if a.isConst() {
		if a.k == 1 {
			return ts.True
		}
		return b
	}
	if b.isConst() {
		if b.k == 1 {
			return ts.True
		}
		return a
	}
	if a == b {
		return a
	}
	if a.id > b.id {
		a, b = b, a
	}
	return ts.mk(OpOr, 0, a, b, nil, 0, "")
}

func (ts *TermStore) Ite(c, a, b *Term) *Term {
	if c.isConst() {
		if c.k == 1 {
			return a
		}
		return b
	}
	if a == b {
		return a
	}
	if a.w == 0 {
		// boolean ite
		if a.isConst() && b.isConst() {
			if a.k == 1 {
				return c
			}
			return ts.Not(c)
		}
		return ts.Or(ts.And(c, a), ts.And(ts.Not(c), b))
	}
	return ts.mk(OpIte, a.w, c, a, b, 0, "")
}

// ---- comparisons

func (ts *TermStore) Eq(a, b *Term) *Term {
	if a.w != b.w {
		panic(fmt.Sprintf("Eq width mismatch %d %d", a.w, b.w))
	}
	if a == b {
		return ts.True
	}
	if a.isConst() && b.isConst() {
		return ts.Bool(a.k == b.k)
	}
	if a.w == 0 {
		if a.isConst() {
			if a.k == 1 {
				return b
			}
			return ts.Not(b)
		}
		if b.isConst() {
			if b.k == 1 {
				return a
			}
			return ts.Not(a)
		}
	}
	if a.isConst() {
		a, b = b, a
	}
	if b.isConst() {
		// eq(zext(x), c)
		if a.op == OpZExt {
			if b.k&^mask(a.a.w) != 0 {
				return ts.False
			}
			return ts.Eq(a.a, ts.Const(a.a.w, b.k))
		}
		// eq(concat(hi,lo), c) -> and(eq(hi,..), eq(lo,..))
		if a.op == OpConcat {
			lo := a.b
			hi := a.a
			return ts.And(ts.Eq(hi, ts.Const(hi.w, b.k>>lo.w)), ts.Eq(lo, ts.Const(lo.w, b.k)))
		}
		// eq(ite(c,k1,k2), k)
		if a.op == OpIte && a.b.isConst() && a.c.isConst() {
			if a.b.k == b.k && a.c.k != b.k {
				return a.a
			}
			if a.b.k != b.k && a.c.k == b.k {
				return ts.Not(a.a)
			}
			if a.b.k != b.k && a.c.k != b.k {
				return ts.False
			}
		}
		// eq(x xor k1, k2) -> eq(x, k1^k2)
		if a.op == OpXor && a.b.isConst() {
			return ts.Eq(a.a, ts.Const(a.w, a.b.k^b.k))
		}
	}
	if !b.isConst() && a.id > b.id {
		a, b = b, a
	}
	return ts.mk(OpEq, 0, a, b, nil, 0, "")
}

func (ts *TermStore) cmp(op Op, a, b *Term) *Term {
	if a.w != b.w {
		panic("cmp width mismatch")
	}
	if a.isConst() && b.isConst() {
		var r bool
		switch op {
		case OpUlt:
			r = a.k < b.k
		case OpUle:
			r = a.k <= b.k
		case OpSlt:
			r = sext64(a.k, a.w) < sext64(b.k, b.w)
		case OpSle:
			r = sext64(a.k, a.w) <= sext64(b.k, b.w)
		}
		return ts.Bool(r)
	}
	if a == b {
		return ts.Bool(op == OpUle || op == OpSle)
	}
	// narrow comparisons of zero-extended values against constants
	if a.op == OpZExt && b.isConst() && (op == OpUlt || op == OpUle || sext64(b.k, b.w) >= 0) {
		if b.k > mask(a.a.w) {
			return ts.True
		}
		nop := op
		if op == OpSlt {
			nop = OpUlt
		} else if op == OpSle {
			nop = OpUle
		}
		return ts.cmp(nop, a.a, ts.Const(a.a.w, b.k))
	}
	if b.op == OpZExt && a.isConst() && (op == OpUlt || op == OpUle || sext64(a.k, a.w) >= 0) {
		if a.k > mask(b.a.w) {
			return ts.False
		}
		nop := op
		if op == OpSlt {
			nop = OpUlt
		} else if op == OpSle {
			nop = OpUle
		}
		return ts.cmp(nop, ts.Const(b.a.w, a.k), b.a)
	}
	if b.op == OpZExt && a.isConst() && sext64(a.k, a.w) < 0 && (op == OpSlt || op == OpSle) && b.a.w < b.w {
		return ts.True
	}
	if a.op == OpZExt && b.isConst() && sext64(b.k, b.w) < 0 && (op == OpSlt || op == OpSle) && a.a.w < a.w {
		return ts.False
	}
	if (op == OpUlt) && b.isConst() && b.k == 0 {
		return ts.False
	}
	if (op == OpUle) && a.isConst() && a.k == 0 {
		return ts.True
	}
	return ts.mk(op, 0, a, b, nil, 0, "")
}

func (ts *TermStore) Ult(a, b *Term) *Term { return ts.cmp(OpUlt, a, b) }
func (ts *TermStore) Ule(a, b *Term) *Term { return ts.cmp(OpUle, a, b) }
func (ts *TermStore) Slt(a, b *Term) *Term { return ts.cmp(OpSlt, a, b) }
func (ts *TermStore) Sle(a, b *Term) *Term { return ts.cmp(OpSle, a, b) }

// ---- bit-vector ops

func foldBin(op Op, w uint8, x, y uint64) (uint64, bool) {
	m := mask(w)
	switch op {
	case OpAnd:
		return x & y, true
	case OpOr:
		return x | y, true
	case OpXor:
		return x ^ y, true
	case OpAdd:
		return (x + y) & m, true
	case OpSub:
		return (x - y) & m, true
	case OpMul:
		return (x * y) & m, true
	case OpUDiv:
		if y == 0 {
			return m, true
		}
		return x / y, true
	case OpURem:
		if y == 0 {
			return x, true
		}
		return x % y, true
	case OpSDiv:
		if y == 0 {
			return 0, false
		}
		sx, sy := sext64(x, w), sext64(y, w)
		if sy == -1 {
			return uint64(-sx) & m, true
		}
		return uint64(sx/sy) & m, true
	case OpSRem:
		if y == 0 {
			return 0, false
		}
		sx, sy := sext64(x, w), sext64(y, w)
		if sy == -1 {
			return 0, true
		}
		return uint64(sx%sy) & m, true
	case OpShl:
		if y >= uint64(w) {
			return 0, true
		}
		return (x << y) & m, true
	case OpLShr:
		if y >= uint64(w) {
			return 0, true
		}
		return x >> y, true
	case OpAShr:
		sx := sext64(x, w)
		if y >= uint64(w) {
			y = uint64(w) - 1
		}
		return uint64(sx>>y) & m, true
	}
	return 0, false
}

func (ts *TermStore) Bin(op Op, a, b *Term) *Term {
	if a.w != b.w {
		panic(fmt.Sprintf("Bin %s width mismatch %d %d", opNames[op], a.w, b.w))
	}
	w := a.w
	if w == 0 {
		switch op {
		case OpAnd:
			return ts.And(a, b)
		case OpOr:
			return ts.Or(a, b)
		case OpXor:
			return ts.Not(ts.Eq(a, b))
		}
		panic("bad bool bin")
	}
	if a.isConst() && b.isConst() {
		if v, ok := foldBin(op, w, a.k, b.k); ok {
			return ts.Const(w, v)
		}
	}
	// (zext(x) * c) / c == zext(x) and (zext(x) * c) % c == 0 when the product cannot overflow
	if (op == OpSDiv || op == OpUDiv || op == OpSRem || op == OpURem) && b.isConst() && b.k > 0 && a.op == OpMul && a.b.isConst() && a.b.k == b.k && a.a.op == OpZExt {
		xw := a.a.a.w
		// the product zext(x)*c must fit the term's own width (one bit less for the signed operators)
		lim := w
		if op == OpSDiv || op == OpSRem {
			lim = w - 1
		}
		if xw < lim && lim-xw < 64 && b.k < (uint64(1)<<(lim-xw)) {
			if op == OpSDiv || op == OpUDiv {
				return a.a
			}
			return ts.Const(w, 0)
		}
	}
	commut := op == OpAnd || op == OpOr || op == OpXor || op == OpAdd || op == OpMul
	if commut && a.isConst() {
		a, b = b, a
	}
	if b.isConst() {
		switch op {
		case OpAnd:
			if b.k == 0 {
				return b
			}
			if b.k == mask(w) {
				return a
			}
			// and(zext(x), k) where k covers x fully
			if a.op == OpZExt && b.k&mask(a.a.w) == mask(a.a.w) {
				return a
			}
			if a.op == OpZExt && b.k&mask(a.a.w) == 0 {
				return ts.Const(w, 0)
			}
		case OpOr:
			if b.k == 0 {
				return a
			}
			if b.k == mask(w) {
				return b
			}
		case OpXor, OpAdd, OpSub:
			if b.k == 0 {
				return a
			}
		case OpShl, OpLShr, OpAShr:
			if b.k == 0 {
				return a
			}
			if b.k >= uint64(w) && op != OpAShr {
				return ts.Const(w, 0)
			}
			// shl(zext(x), k) with room -> concat
			if op == OpShl && a.op == OpZExt && int(a.a.w)+int(b.k) <= int(w) {
				inner := ts.Concat(a.a, ts.Const(uint8(b.k), 0))
				return ts.ZExt(inner, w)
			}
			if op == OpLShr && a.op == OpZExt && b.k >= uint64(a.a.w) {
				return ts.Const(w, 0)
			}
			if op == OpAShr && a.op == OpZExt && a.a.w < a.w {
				return ts.Bin(OpLShr, a, b)
			}
			if op == OpLShr {
				// lshr(x,k) = zext(extract(x, w-1, k))
				return ts.ZExt(ts.Extract(a, w-1, uint8(b.k)), w)
			}
		case OpMul:
			if b.k == 0 {
				return b
			}
			if b.k == 1 {
				return a
			}
			if b.k&(b.k-1) == 0 {
				return ts.Bin(OpShl, a, ts.Const(w, uint64(bits.TrailingZeros64(b.k))))
			}
		case OpUDiv:
			if b.k == 1 {
				return a
			}
		}
	}
	if a.isConst() && a.k == 0 {
		switch op {
		case OpShl, OpLShr, OpAShr, OpMul, OpAnd, OpUDiv, OpURem:
			if op != OpUDiv && op != OpURem {
				return a
			}
		}
	}
	if a == b {
		switch op {
		case OpAnd, OpOr:
			return a
		case OpXor, OpSub:
			return ts.Const(w, 0)
		}
	}
	// or of disjoint zero-extended pieces: or(zext(concat(x,0^k)), zext(y)) with y.w<=k -> zext(concat(x, zext_k(y)))
	if op == OpOr {
		if r := ts.orConcat(a, b); r != nil {
			return r
		}
		if r := ts.orConcat(b, a); r != nil {
			return r
		}
	}
	if commut && !b.isConst() && a.id > b.id {
		a, b = b, a
	}
	return ts.mk(op, w, a, b, nil, 0, "")
}

// orConcat recognises hi|lo where hi = zext(concat(x, 0^k)) and lo = zext(y), |y| <= k.
func (ts *TermStore) orConcat(hi, lo *Term) *Term {
	if hi.op != OpZExt || hi.a.op != OpConcat {
		return nil
	}
	z := hi.a.b
	if !z.isConst() || z.k != 0 {
		return nil
	}
	var y *Term
	if lo.op == OpZExt {
		y = lo.a
	} else {
		return nil
	}
	if y.w > z.w {
		return nil
	}
	var low *Term
	if y.w == z.w {
		low = y
	} else {
		low = ts.ZExt(y, z.w)
	}
	return ts.ZExt(ts.Concat(hi.a.a, low), hi.w)
}

func (ts *TermStore) BVNot(a *Term) *Term {
	if a.w == 0 {
		return ts.Not(a)
	}
	if a.isConst() {
		return ts.Const(a.w, ^a.k)
	}
	if a.op == OpNot {
		return a.a
	}
	return ts.mk(OpNot, a.w, a, nil, nil, 0, "")
}

func (ts *TermStore) Neg(a *Term) *Term {
	if a.isConst() {
		return ts.Const(a.w, -a.k)
	}
	return ts.mk(OpNeg, a.w, a, nil, nil, 0, "")
}

func (ts *TermStore) Concat(hi, lo *Term) *Term {
	w := int(hi.w) + int(lo.w)
	if w > 64 {
		panic("concat > 64 bits")
	}
	if hi.isConst() && lo.isConst() {
		return ts.Const(uint8(w), hi.k<<lo.w|lo.k)
	}
	if hi.op == OpExtract && lo.op == OpExtract && hi.a == lo.a && (hi.k&0xff) == (lo.k>>8)+1 {
		return ts.Extract(hi.a, uint8(hi.k>>8), uint8(lo.k&0xff))
	}
	if hi.isConst() && hi.k == 0 {
		return ts.ZExt(lo, uint8(w))
	}
	return ts.mk(OpConcat, uint8(w), hi, lo, nil, 0, "")
}

func (ts *TermStore) Extract(a *Term, hi, lo uint8) *Term {
	if hi < lo || hi >= a.w {
		panic(fmt.Sprintf("bad extract %d %d of w%d", hi, lo, a.w))
	}
	w := hi - lo + 1
	if w == a.w {
		return a
	}
	if a.isConst() {
		return ts.Const(w, a.k>>lo)
	}
	switch a.op {
	case OpZExt:
		if hi < a.a.w {
			return ts.Extract(a.a, hi, lo)
		}
		if lo >= a.a.w {
			return ts.Const(w, 0)
		}
		return ts.ZExt(ts.Extract(a.a, a.a.w-1, lo), w)
	case OpConcat:
		lw := a.b.w
		if hi < lw {
			return ts.Extract(a.b, hi, lo)
		}
		if lo >= lw {
			return ts.Extract(a.a, hi-lw, lo-lw)
		}
		return ts.Concat(ts.Extract(a.a, hi-lw, 0), ts.Extract(a.b, lw-1, lo))
	case OpExtract:
		base := uint8(a.k & 0xff)
		return ts.Extract(a.a, hi+base, lo+base)
	case OpAnd, OpOr, OpXor:
		if a.w > 0 {
			return ts.Bin(a.op, ts.Extract(a.a, hi, lo), ts.Extract(a.b, hi, lo))
		}
	case OpIte:
		return ts.Ite(a.a, ts.Extract(a.b, hi, lo), ts.Extract(a.c, hi, lo))
	}
	return ts.mk(OpExtract, w, a, nil, nil, uint64(hi)<<8|uint64(lo), "")
}

func (ts *TermStore) ZExt(a *Term, w uint8) *Term {
	if w == a.w {
		return a
	}
	if w < a.w {
		return ts.Extract(a, w-1, 0)
	}
	if a.isConst() {
		return ts.Const(w, a.k)
	}
	if a.op == OpZExt {
		return ts.ZExt(a.a, w)
	}
	if a.op == OpIte && a.b.isConst() && a.c.isConst() {
		return ts.Ite(a.a, ts.Const(w, a.b.k), ts.Const(w, a.c.k))
	}
	return ts.mk(OpZExt, w, a, nil, nil, 0, "")
}

func (ts *TermStore) SExt(a *Term, w uint8) *Term {
	if w == a.w {
		return a
	}
	if w < a.w {
		return ts.Extract(a, w-1, 0)
	}
	if a.isConst() {
		return ts.Const(w, uint64(sext64(a.k, a.w)))
	}
	if a.op == OpZExt && a.a.w < a.w {
		return ts.ZExt(a.a, w)
	}
	return ts.mk(OpSExt, w, a, nil, nil, 0, "")
}

// ---- printing

func (t *Term) isLeaf() bool { return t.op == OpConst || t.op == OpVar }

func sortOf(w uint8) string {
	if w == 0 {
		return "Bool"
	}
	return fmt.Sprintf("(_ BitVec %d)", w)
}

func constStr(w uint8, k uint64) string {
	if w == 0 {
		if k != 0 {
			return "true"
		}
		return "false"
	}
	if w%4 == 0 {
		return fmt.Sprintf("#x%0*x", int(w)/4, k)
	}
	return fmt.Sprintf("(_ bv%d %d)", k, w)
}

// ref returns the textual reference of t inside another expression:
// leaves inline, everything else by its defined name.
func (t *Term) ref() string {
	switch t.op {
	case OpConst:
		return constStr(t.w, t.k)
	case OpVar:
		return t.name
	}
	return fmt.Sprintf("t%d", t.id)
}

// body prints the defining expression of a non-leaf term (one level).
func (t *Term) body() string {
	var sb strings.Builder
	switch t.op {
	case OpNot:
		if t.w == 0 {
			fmt.Fprintf(&sb, "(not %s)", t.a.ref())
		} else {
			fmt.Fprintf(&sb, "(bvnot %s)", t.a.ref())
		}
	case OpNeg:
		fmt.Fprintf(&sb, "(bvneg %s)", t.a.ref())
	case OpAnd, OpOr, OpXor:
		n := opNames[t.op]
		if t.w != 0 {
			n = "bv" + n
		}
		fmt.Fprintf(&sb, "(%s %s %s)", n, t.a.ref(), t.b.ref())
	case OpExtract:
		fmt.Fprintf(&sb, "((_ extract %d %d) %s)", t.k>>8, t.k&0xff, t.a.ref())
	case OpZExt:
		fmt.Fprintf(&sb, "((_ zero_extend %d) %s)", t.w-t.a.w, t.a.ref())
	case OpSExt:
		fmt.Fprintf(&sb, "((_ sign_extend %d) %s)", t.w-t.a.w, t.a.ref())
	case OpIte:
		fmt.Fprintf(&sb, "(ite %s %s %s)", t.a.ref(), t.b.ref(), t.c.ref())
	default:
		fmt.Fprintf(&sb, "(%s %s %s)", opNames[t.op], t.a.ref(), t.b.ref())
	}
	return sb.String()
}

// String gives a fully inlined rendering (debugging, evidence samples).
func (t *Term) String() string {
	if t.isLeaf() {
		return t.ref()
	}
	var sb strings.Builder
	t.inline(&sb, 0)
	return sb.String()
}

func (t *Term) inline(sb *strings.Builder, depth int) {
	if t.isLeaf() {
		sb.WriteString(t.ref())
		return
	}
	if depth > 12 {
		sb.WriteString("...")
		return
	}
	switch t.op {
	case OpExtract:
		fmt.Fprintf(sb, "((_ extract %d %d) ", t.k>>8, t.k&0xff)
	case OpZExt:
		fmt.Fprintf(sb, "((_ zero_extend %d) ", t.w-t.a.w)
	case OpSExt:
		fmt.Fprintf(sb, "((_ sign_extend %d) ", t.w-t.a.w)
	default:
		n := opNames[t.op]
		if t.w != 0 && (t.op == OpAnd || t.op == OpOr || t.op == OpXor || t.op == OpNot) {
			n = "bv" + n
		}
		sb.WriteString("(" + n + " ")
	}
	for i, x := range []*Term{t.a, t.b, t.c} {
		if x == nil {
			continue
		}
		if i > 0 {
			sb.WriteByte(' ')
		}
		x.inline(sb, depth+1)
	}
	sb.WriteByte(')')
}

// vars collects the free variables of t.
func (t *Term) vars(seen map[*Term]bool, out *[]*Term) {
	if t == nil || seen[t] {
		return
	}
	seen[t] = true
	if t.op == OpVar {
		*out = append(*out, t)
		return
	}
	t.a.vars(seen, out)
	t.b.vars(seen, out)
	t.c.vars(seen, out)
}

// eval evaluates t under a model (variables absent from the model read as 0).
func (t *Term) eval(m map[string]uint64, memo map[*Term]uint64) uint64 {
	if t.op == OpConst {
		return t.k
	}
	if v, ok := memo[t]; ok {
		return v
	}
	var r uint64
	switch t.op {
	case OpVar:
		r = m[t.name] & mask1(t.w)
	case OpNot:
		if t.w == 0 {
			r = 1 - t.a.eval(m, memo)
		} else {
			r = ^t.a.eval(m, memo) & mask(t.w)
		}
	case OpNeg:
		r = -t.a.eval(m, memo) & mask(t.w)
	case OpConcat:
		r = t.a.eval(m, memo)<<t.b.w | t.b.eval(m, memo)
	case OpExtract:
		r = (t.a.eval(m, memo) >> (t.k & 0xff)) & mask(t.w)
	case OpZExt:
		r = t.a.eval(m, memo)
	case OpSExt:
		r = uint64(sext64(t.a.eval(m, memo), t.a.w)) & mask(t.w)
	case OpIte:
		if t.a.eval(m, memo) != 0 {
			r = t.b.eval(m, memo)
		} else {
			r = t.c.eval(m, memo)
		}
	case OpEq:
		if t.a.eval(m, memo) == t.b.eval(m, memo) {
			r = 1
		}
	case OpUlt, OpUle, OpSlt, OpSle:
		x, y := t.a.eval(m, memo), t.b.eval(m, memo)
		var b bool
		switch t.op {
		case OpUlt:
			b = x < y
		case OpUle:
			b = x <= y
		case OpSlt:
			b = sext64(x, t.a.w) < sext64(y, t.a.w)
		case OpSle:
			b = sext64(x, t.a.w) <= sext64(y, t.a.w)
		}
		if b {
			r = 1
		}
	default:
		x, y := t.a.eval(m, memo), t.b.eval(m, memo)
		if t.w == 0 {
			switch t.op {
			case OpAnd:
				r = x & y
			case OpOr:
				r = x | y
			case OpXor:
				r = x ^ y
			}
		} else {
			v, ok := foldBin(t.op, t.w, x, y)
			if !ok {
				v = 0
			}
			r = v
		}
	}
	memo[t] = r
	return r
}

func mask1(w uint8) uint64 {
	if w == 0 {
		return 1
	}
	return mask(w)
}
