package main

// Path exploration: decision vectors, forking by re-execution, work queue.

import (
	"fmt"
	"os"
	"regexp"
	"strings"
	"sort"
	"sync"
	"time"
)

type Decision struct {
	Kind   byte   // 'b' branch, 'c' concretisation, 'n' plain choice
	V      uint64 // chosen value
	Forced bool   // no alternative was feasible (nothing to assert on replay)
	Site   string // debugging aid (only with tracing)
}

type nondetRec struct {
	t    *Term  // symbolic variable, or nil
	c    uint64 // concrete value when t == nil
	kind string
}

// pathAbort unwinds the interpreter when a path ends early.
type pathAbort struct {
	status string // "assume", "violation", "unsupported", "budget", "killed", "done"
	msg    string
}

type Violation struct {
	Harness string            `json:"harness"`
	Kind    string            `json:"kind"` // assert | panic | hang | deadlock
	Label   string            `json:"label"`
	Site    string            `json:"site"`
	Msg     string            `json:"msg"`
	Nondet  []uint64          `json:"nondet"`
	Model   map[string]uint64 `json:"-"`
	Trace   []Decision        `json:"-"`
	Obs     []string          `json:"obs,omitempty"`
	// filled by native replay
	Replayed  bool   `json:"replayed"`
	NativeOut string `json:"native_out,omitempty"`
	File      string `json:"file,omitempty"`
}

var digitsRe = regexp.MustCompile(`[0-9]+`)

func (v *Violation) Signature() string {
	return v.Harness + "|" + v.Kind + "|" + digitsRe.ReplaceAllString(v.Label, "N") + "|" + v.Site
}

type Witness struct {
	Label  string   `json:"label"`
	Nondet []uint64 `json:"nondet"`
	Obs    []string `json:"obs"`
}

type ExploreStats struct {
	Paths        int64
	Completed    int64
	Assumed      int64 // pruned by assume
	Decisions    int64
	Forks        int64
	Instr        int64
	MaxDepth     int
	Unsupported  map[string]int
	Inconclusive []string
	Labels       map[string]int64
	UnknownFeas  int64
	MaxLoopSeen  int
	Checks       int64
	Cut          int64
}

type Explorer struct {
	prog    *Program
	harness string
	tier    int
	seed    int64

	mu       sync.Mutex
	cond     *sync.Cond
	stack    [][]Decision
	active   int
	stop     bool
	maxPaths int64
	deadline time.Time

	stats      ExploreStats
	violations map[string][]*Violation // by signature
	vioOrder   []string
	witnesses  map[string]*Witness
	witnessCount map[string]int
	samples    []string
	funcsSeen  map[string]bool
	solver     SolverStats
	opts       ExploreOpts
	notes      map[string]int
	forkSites  map[string]int
	opaque     map[string]int
	assertQueries, assertUnsat int64
	retried    int64
	crossDone, crossAgree, crossDisagree, crossUnknown int
}

type ExploreOpts struct {
	Workers       int
	MaxPaths      int64
	Timeout       time.Duration
	SolverBin     string
	SolverTimeout int // ms
	Fuel          int64
	LoopLimit     int
	MaxConcretize int
	Trace         bool
	VioPerSig     int
}

func NewExplorer(prog *Program, harness string, tier int, opts ExploreOpts) *Explorer {
	ex := &Explorer{prog: prog, harness: harness, tier: tier, opts: opts}
	ex.cond = sync.NewCond(&ex.mu)
	ex.violations = make(map[string][]*Violation)
	ex.witnesses = make(map[string]*Witness)
	ex.witnessCount = make(map[string]int)
	ex.funcsSeen = make(map[string]bool)
	ex.stats.Unsupported = make(map[string]int)
	ex.stats.Labels = make(map[string]int64)
	ex.notes = make(map[string]int)
	ex.forkSites = make(map[string]int)
	ex.opaque = make(map[string]int)
	ex.maxPaths = opts.MaxPaths
	if opts.Timeout > 0 {
		ex.deadline = time.Now().Add(opts.Timeout)
	}
	return ex
}

func (ex *Explorer) push(prefix []Decision) {
	ex.mu.Lock()
	ex.stack = append(ex.stack, prefix)
	ex.stats.Forks++
	ex.mu.Unlock()
	ex.cond.Signal()
}

// pop returns the next prefix to explore or nil,false when exploration is over.
func (ex *Explorer) pop() ([]Decision, bool) {
	ex.mu.Lock()
	defer ex.mu.Unlock()
	for {
		if ex.stop {
			return nil, false
		}
		if n := len(ex.stack); n > 0 {
			p := ex.stack[n-1]
			ex.stack = ex.stack[:n-1]
			ex.active++
			return p, true
		}
		if ex.active == 0 {
			ex.cond.Broadcast()
			return nil, false
		}
		ex.cond.Wait()
	}
}

func (ex *Explorer) finishPath() {
	ex.mu.Lock()
	ex.active--
	ex.stats.Paths++
	if ex.maxPaths > 0 && ex.stats.Paths >= ex.maxPaths && !ex.stop {
		ex.stop = true
		ex.stats.Inconclusive = append(ex.stats.Inconclusive, fmt.Sprintf("path budget %d exhausted with %d prefixes pending", ex.maxPaths, len(ex.stack)))
	}
	if !ex.deadline.IsZero() && time.Now().After(ex.deadline) && !ex.stop {
		ex.stop = true
		ex.stats.Inconclusive = append(ex.stats.Inconclusive, fmt.Sprintf("time budget exhausted with %d prefixes pending", len(ex.stack)))
	}
	idle := ex.active == 0 && len(ex.stack) == 0
	ex.mu.Unlock()
	if idle || ex.stop {
		ex.cond.Broadcast()
	}
}

// Run explores all paths of the harness.
func (ex *Explorer) Run() {
	ex.stack = append(ex.stack, []Decision{})
	var wg sync.WaitGroup
	n := ex.opts.Workers
	if n <= 0 {
		n = 1
	}
	for i := 0; i < n; i++ {
		wg.Add(1)
		go func(id int) {
			defer wg.Done()
			w, err := newWorker(ex, id)
			if err != nil {
				ex.mu.Lock()
				ex.stats.Inconclusive = append(ex.stats.Inconclusive, "worker start: "+err.Error())
				ex.stop = true
				ex.mu.Unlock()
				ex.cond.Broadcast()
				return
			}
			defer w.close()
			for {
				prefix, ok := ex.pop()
				if !ok {
					return
				}
				w.runPath(prefix)
				ex.finishPath()
			}
		}(i)
	}
	wg.Wait()
}

// ---------------------------------------------------------------- Path

type Path struct {
	allocBytes int64 // bytes allocated by make/new/append growth of interpreted code (vAllocated)
	ex  *Explorer
	w   *Worker
	ts  *TermStore
	sol *Solver

	prefix []Decision
	pos    int
	trace  []Decision

	decided map[*Term]bool
	bound   map[*Term]uint64
	pc      []*Term

	nvar   int
	nondet []nondetRec
	extraVars []*Term // model-only variables (hpke ciphertexts, ...)

	fuel     int64
	instr    int64
	labels   []string
	obs      []Value
	status   string
	msg      string
	hpke     *hpkeModel
	sched    *Sched
	side     map[any]any // side tables keyed by cell pointers (mutexes, waitgroups, ...)
	maxLoop  int

	siteOverride string
	pendingAbort *pathAbort
	pendingPanic *goPanic
	pendingBug   any
	schedForks   bool
	quiescing    bool
	schedPoints  int // 2: go, channel operations, select and atomics are scheduling points too
	delayBound   bool // vDelays(k): at most k deviations from the default scheduler
	delayLeft    int
	preemptBound bool
	preemptLeft  int
	yieldForks   bool
	inInit       int
	nchecks      int
	merges       int
	ctLenLimit   int
	ctLens       int
	ctMemo       map[*Term]bool
	notes        []string
	lockMon      func(g *Goroutine, key *Value, kind byte)
	race         *raceMon
}

func (p *Path) abort(status, msg string) {
	panic(&pathAbort{status, msg})
}

func (p *Path) unsupported(format string, a ...any) {
	if os.Getenv("UNSUPDBG") != "" && p.sched != nil && p.sched.cur != nil {
		for fr := p.sched.cur.curFr; fr != nil; fr = fr.caller {
			fmt.Fprintln(os.Stderr, "  at", fr.fn.String())
		}
	}
	p.abort("unsupported", fmt.Sprintf(format, a...))
}

func (p *Path) assert(t *Term) {
	if t.isConst() {
		if t.k == 0 {
			panic("engine: asserting false")
		}
		return
	}
	p.pc = append(p.pc, t)
	p.sol.Assert(t)
}

func (p *Path) record(d Decision) {
	if p.ex.opts.Trace && d.Site == "" {
		d.Site = p.curSite()
	}
	p.trace = append(p.trace, d)
	p.pos++
}

func (p *Path) curSite() string {
	if p.sched != nil && p.sched.cur != nil && p.sched.cur.curFr != nil {
		return p.sched.cur.curFr.stableSite()
	}
	return "?"
}

func (p *Path) diverge(want Decision, asks string) {
	msg := fmt.Sprintf("engine: replay divergence: expected %c decision at %d, harness asks %s", want.Kind, p.pos, asks)
	if p.ex.opts.Trace {
		msg += fmt.Sprintf("\n  recorded site: %s\n  current site:  %s\n  trace so far:", want.Site, p.curSite())
		for i, d := range p.trace {
			msg += fmt.Sprintf("\n   %d %c %d forced=%v %s", i, d.Kind, d.V, d.Forced, d.Site)
		}
	}
	panic(msg)
}

func (p *Path) sibling(d Decision) {
	if p.ex.opts.Trace && p.sched != nil && p.sched.cur != nil && p.sched.cur.curFr != nil {
		site := p.sched.cur.curFr.stableSite()
		p.ex.mu.Lock()
		p.ex.forkSites[site]++
		if k := os.Getenv("FORKKEY"); k != "" {
			idx := 0
			fmt.Sscanf(k, "%d", &idx)
			n := 0
			for _, r := range p.nondet {
				if r.kind == "int" {
					if n == idx {
						p.ex.forkSites[fmt.Sprintf("key=%d", r.c)]++
						break
					}
					n++
				}
			}
		}
		p.ex.mu.Unlock()
	}
	np := make([]Decision, len(p.trace)+1)
	copy(np, p.trace)
	np[len(p.trace)] = d
	p.ex.push(np)
}

// decideBool resolves a symbolic condition by forking.
func (p *Path) decideBool(c *Term) bool {
	if c.isConst() {
		return c.k != 0
	}
	if v, ok := p.decided[c]; ok {
		return v
	}
	if c.op == OpNot {
		if v, ok := p.decided[c.a]; ok {
			return !v
		}
	}
	var val bool
	if p.pos < len(p.prefix) {
		d := p.prefix[p.pos]
		if d.Kind != 'b' {
			p.diverge(d, "bool")
		}
		val = d.V != 0
		if !d.Forced {
			if val {
				p.assert(c)
			} else {
				p.assert(p.ts.Not(c))
			}
		}
		p.record(d)
	} else {
		r1 := p.feasible(c)
		switch r1 {
		case Unsat:
			val = false
			p.record(Decision{Kind: 'b', V: 0, Forced: true})
		default:
			if r1 == Unknown {
				p.ex.noteUnknown()
			}
			nc := p.ts.Not(c)
			r2 := p.feasible(nc)
			if r2 == Unsat {
				val = true
				p.record(Decision{Kind: 'b', V: 1, Forced: true})
			} else {
				if r2 == Unknown {
					p.ex.noteUnknown()
				}
				// both feasible: take true now, false later
				if p.ex.opts.Trace && p.ex.stats.Forks < 400 && p.sched.cur.curFr != nil && strings.Contains(p.sched.cur.curFr.fn.String(), os.Getenv("FORKDBG")) {
					println("FORK on", c.String())
				}
				p.sibling(Decision{Kind: 'b', V: 0, Forced: false})
				val = true
				p.assert(c)
				p.record(Decision{Kind: 'b', V: 1, Forced: false})
			}
		}
	}
	p.decided[c] = val
	if c.op == OpEq && val && c.b.isConst() && c.a.w > 0 {
		p.bound[c.a] = c.b.k
	}
	return val
}

// concretize resolves a symbolic integer to each of its feasible values by forking.
func (p *Path) concretize(t *Term) uint64 {
	if t.isConst() {
		return t.k
	}
	if v, ok := p.bound[t]; ok {
		return v
	}
	if p.ctLenLimit > 0 && p.dependsOnCiphertext(t) {
		p.ctLens++
		if p.ctLens > p.ctLenLimit {
			p.abort("cut", "more than the stated number of lengths derived from ciphertext bytes")
		}
	}
	var val uint64
	if p.pos < len(p.prefix) {
		d := p.prefix[p.pos]
		if d.Kind != 'c' {
			p.diverge(d, "concretize")
		}
		val = d.V
		if !d.Forced {
			p.assert(p.ts.Eq(t, p.ts.Const(t.w, val)))
		}
		p.record(d)
	} else {
		var vals []uint64
		limit := p.ex.opts.MaxConcretize
		if limit <= 0 {
			limit = 600
		}
		p.sol.Push()
		for {
			r := p.sol.Check()
			if r == Unknown {
				p.sol.Pop()
				p.abort("unsupported", "solver unknown while enumerating values of "+t.String())
			}
			if r != Sat {
				break
			}
			vs, err := p.sol.Values([]*Term{t})
			if err != nil {
				p.sol.Pop()
				p.abort("unsupported", "get-value failed: "+err.Error())
			}
			vals = append(vals, vs[0])
			if len(vals) > limit {
				p.sol.Pop()
				p.abort("unsupported", fmt.Sprintf("more than %d feasible values for a length/index %s", limit, t.String()))
			}
			p.sol.Assert(p.ts.Not(p.ts.Eq(t, p.ts.Const(t.w, vs[0]))))
		}
		p.sol.Pop()
		if len(vals) == 0 {
			panic("engine: no feasible value for term under a satisfiable path condition: " + t.String())
		}
		sort.Slice(vals, func(i, j int) bool { return vals[i] < vals[j] })
		forced := len(vals) == 1
		for _, v := range vals[1:] {
			p.sibling(Decision{Kind: 'c', V: v, Forced: false})
		}
		val = vals[0]
		if !forced {
			p.assert(p.ts.Eq(t, p.ts.Const(t.w, val)))
		}
		p.record(Decision{Kind: 'c', V: val, Forced: forced})
	}
	p.bound[t] = val
	return val
}

// choose is a solver-independent nondeterministic choice in [0,n).
func (p *Path) choose(n int) int {
	if n <= 1 {
		return 0
	}
	if p.pos < len(p.prefix) {
		d := p.prefix[p.pos]
		if d.Kind != 'n' {
			p.diverge(d, "choice")
		}
		p.record(d)
		return int(d.V)
	}
	for i := 1; i < n; i++ {
		p.sibling(Decision{Kind: 'n', V: uint64(i), Forced: false})
	}
	p.record(Decision{Kind: 'n', V: 0, Forced: false})
	return 0
}

// feasible reports whether pc ∧ c is satisfiable (Unknown counts as feasible).
func (p *Path) feasible(c *Term) SatResult {
	if c.isConst() {
		if c.k != 0 {
			return Sat
		}
		return Unsat
	}
	r := p.sol.CheckAssuming(c)
	if r == Unknown {
		r = p.retryUnknown(c)
	}
	return r
}

// retryUnknown re-decides a query the incremental solver gave up on, in fresh
// one-shot solver processes (z3, then z3-new, then cvc5) with a longer limit.
func (p *Path) retryUnknown(c *Term) SatResult {
	all := append(append([]*Term{}, p.pc...), c)
	to := 4 * p.ex.opts.SolverTimeout
	for _, bin := range []string{"z3", "z3-new", "cvc5"} {
		if r := StandaloneCheck(bin, all, to); r != Unknown {
			p.ex.mu.Lock()
			p.ex.retried++
			p.ex.mu.Unlock()
			return r
		}
	}
	return Unknown
}

func (p *Path) newVar(w uint8, kind string) *Term {
	t := p.ts.Var(w, fmt.Sprintf("n%d_%s", p.nvar, kind))
	p.nvar++
	return t
}

// model returns values for all nondet variables under the current pc plus extra.
func (p *Path) model(extra *Term) (map[string]uint64, bool) {
	p.sol.Push()
	defer p.sol.Pop()
	if extra != nil {
		p.sol.Assert(extra)
	}
	if p.sol.Check() != Sat {
		return nil, false
	}
	var vars []*Term
	seen := map[*Term]bool{}
	for _, r := range p.nondet {
		if r.t != nil && !seen[r.t] {
			seen[r.t] = true
			vars = append(vars, r.t)
		}
	}
	for _, t := range p.extraVars {
		if !seen[t] {
			seen[t] = true
			vars = append(vars, t)
		}
	}
	vals, err := p.sol.Values(vars)
	if err != nil {
		return nil, false
	}
	m := make(map[string]uint64, len(vars))
	for i, v := range vars {
		m[v.name] = vals[i]
	}
	return m, true
}

func (p *Path) nondetVector(m map[string]uint64) []uint64 {
	out := make([]uint64, len(p.nondet))
	for i, r := range p.nondet {
		if r.t != nil {
			out[i] = m[r.t.name]
		} else {
			out[i] = r.c
		}
	}
	return out
}

func (ex *Explorer) noteUnknown() {
	ex.mu.Lock()
	ex.stats.UnknownFeas++
	ex.mu.Unlock()
}

func (ex *Explorer) addViolation(v *Violation) {
	ex.mu.Lock()
	defer ex.mu.Unlock()
	sig := v.Signature()
	if _, ok := ex.violations[sig]; !ok {
		ex.vioOrder = append(ex.vioOrder, sig)
	}
	lim := ex.opts.VioPerSig
	if lim <= 0 {
		lim = 3 // several candidates per signature: one that reproduces natively is enough
	}
	if len(ex.violations[sig]) < lim {
		ex.violations[sig] = append(ex.violations[sig], v)
	} else {
		ex.violations[sig][0].Msg = ex.violations[sig][0].Msg // keep
	}
}

func (ex *Explorer) noteInconclusive(msg string) {
	ex.mu.Lock()
	defer ex.mu.Unlock()
	ex.stats.Unsupported[msg]++
}

// dependsOnCiphertext reports whether t mentions a model-only ciphertext/enc variable.
func (p *Path) dependsOnCiphertext(t *Term) bool {
	if t == nil || t.op == OpConst {
		return false
	}
	if t.op == OpVar {
		return strings.HasSuffix(t.name, "_ct") || strings.HasSuffix(t.name, "_enc")
	}
	if p.ctMemo == nil {
		p.ctMemo = make(map[*Term]bool)
	}
	if v, ok := p.ctMemo[t]; ok {
		return v
	}
	r := p.dependsOnCiphertext(t.a) || p.dependsOnCiphertext(t.b) || p.dependsOnCiphertext(t.c)
	p.ctMemo[t] = r
	return r
}
