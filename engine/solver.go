package main

// A long-lived SMT solver process driven over a pipe (SMT-LIB2, incremental).

import (
	"bufio"
	"bytes"
	"fmt"
	"io"
	"os/exec"
	"strconv"
	"strings"
	"time"
)

type SatResult int

const (
	Unsat SatResult = iota
	Sat
	Unknown
)

func (r SatResult) String() string { return [...]string{"unsat", "sat", "unknown"}[r] }

type SolverStats struct {
	Sat, Unsat, Unknown int
	Errors              int
	Time                time.Duration
	Restarts            int
}

type Solver struct {
	bin       string
	args      []string
	cmd       *exec.Cmd
	in        *bufio.Writer
	inc       io.WriteCloser
	out       *bufio.Reader
	level     int
	emitted   map[*Term]int // term -> level at which it was defined/declared
	byLevel   [][]*Term
	Stats     SolverStats
	timeoutMs int
	lastErr   string
	log       io.Writer
}

func NewSolver(bin string, timeoutMs int) (*Solver, error) {
	s := &Solver{bin: bin, timeoutMs: timeoutMs}
	switch {
	case strings.Contains(bin, "cvc5"):
		s.args = []string{"--incremental", "--lang=smt2", "--produce-models", fmt.Sprintf("--tlimit-per=%d", timeoutMs)}
	default:
		s.args = []string{"-in", "-smt2"}
	}
	if err := s.start(); err != nil {
		return nil, err
	}
	return s, nil
}

func (s *Solver) start() error {
	s.cmd = exec.Command(s.bin, s.args...)
	inp, err := s.cmd.StdinPipe()
	if err != nil {
		return err
	}
	outp, err := s.cmd.StdoutPipe()
	if err != nil {
		return err
	}
	s.cmd.Stderr = nil
	if err := s.cmd.Start(); err != nil {
		return err
	}
	s.inc = inp
	s.in = bufio.NewWriterSize(inp, 1<<16)
	s.out = bufio.NewReaderSize(outp, 1<<16)
	s.level = 0
	s.emitted = make(map[*Term]int)
	s.byLevel = [][]*Term{nil}
	if !strings.Contains(s.bin, "cvc5") {
		s.send(fmt.Sprintf("(set-option :timeout %d)", s.timeoutMs))
	}
	s.send("(set-option :produce-models true)")
	s.send("(set-logic QF_BV)")
	return nil
}

func (s *Solver) Close() {
	if s.cmd != nil {
		s.send("(exit)")
		s.in.Flush()
		s.inc.Close()
		done := make(chan struct{})
		go func() { s.cmd.Wait(); close(done) }()
		select {
		case <-done:
		case <-time.After(2 * time.Second):
			s.cmd.Process.Kill()
		}
		s.cmd = nil
	}
}

func (s *Solver) send(line string) {
	if s.log != nil {
		fmt.Fprintln(s.log, line)
	}
	s.in.WriteString(line)
	s.in.WriteByte('\n')
}

// Reset discards all assertions and definitions.
func (s *Solver) Reset() {
	for s.level > 0 {
		s.Pop()
	}
}

func (s *Solver) Push() {
	s.send("(push 1)")
	s.level++
	s.byLevel = append(s.byLevel, nil)
}

func (s *Solver) Pop() {
	if s.level == 0 {
		panic("solver pop at level 0")
	}
	s.send("(pop 1)")
	for _, t := range s.byLevel[s.level] {
		delete(s.emitted, t)
	}
	s.byLevel = s.byLevel[:s.level]
	s.level--
}

// define makes sure t (and its sub-terms) are known to the solver by name.
func (s *Solver) define(t *Term) {
	if t == nil || t.op == OpConst {
		return
	}
	if _, ok := s.emitted[t]; ok {
		return
	}
	if t.op == OpVar {
		s.send(fmt.Sprintf("(declare-const %s %s)", t.name, sortOf(t.w)))
	} else {
		s.define(t.a)
		s.define(t.b)
		s.define(t.c)
		s.send(fmt.Sprintf("(define-fun t%d () %s %s)", t.id, sortOf(t.w), t.body()))
	}
	s.emitted[t] = s.level
	s.byLevel[s.level] = append(s.byLevel[s.level], t)
}

func (s *Solver) Assert(t *Term) {
	if t.w != 0 {
		panic("assert of non-bool")
	}
	s.define(t)
	s.send("(assert " + t.ref() + ")")
}

func (s *Solver) readLine() (string, error) {
	line, err := s.out.ReadString('\n')
	return strings.TrimSpace(line), err
}

func (s *Solver) Check() SatResult {
	t0 := time.Now()
	s.send("(check-sat)")
	s.in.Flush()
	res := Unknown
	for {
		line, err := s.readLine()
		if err != nil {
			s.lastErr = "solver died: " + err.Error()
			s.Stats.Errors++
			break
		}
		if line == "" {
			continue
		}
		if line == "sat" {
			res = Sat
			break
		}
		if line == "unsat" {
			res = Unsat
			break
		}
		if line == "unknown" || line == "timeout" {
			res = Unknown
			break
		}
		if strings.HasPrefix(line, "(error") {
			s.lastErr = line
			s.Stats.Errors++
			// keep reading: the check-sat answer still follows
			continue
		}
		s.lastErr = "unexpected solver output: " + line
		s.Stats.Errors++
	}
	s.Stats.Time += time.Since(t0)
	switch res {
	case Sat:
		s.Stats.Sat++
	case Unsat:
		s.Stats.Unsat++
	default:
		s.Stats.Unknown++
	}
	return res
}

// CheckAssuming checks satisfiability of the current context plus extra,
// without keeping extra.
func (s *Solver) CheckAssuming(extra *Term) SatResult {
	s.Push()
	s.Assert(extra)
	r := s.Check()
	s.Pop()
	return r
}

// Values returns the model values of the given variables / terms (after Sat).
func (s *Solver) Values(ts []*Term) ([]uint64, error) {
	if len(ts) == 0 {
		return nil, nil
	}
	out := make([]uint64, 0, len(ts))
	const chunk = 200
	for i := 0; i < len(ts); i += chunk {
		j := min(i+chunk, len(ts))
		var sb strings.Builder
		sb.WriteString("(get-value (")
		for _, t := range ts[i:j] {
			s.define(t)
			sb.WriteString(t.ref())
			sb.WriteByte(' ')
		}
		sb.WriteString("))")
		t0 := time.Now()
		s.send(sb.String())
		s.in.Flush()
		txt, err := s.readSexp()
		s.Stats.Time += time.Since(t0)
		if err != nil {
			return nil, err
		}
		vals, err := parseValues(txt, j-i)
		if err != nil {
			return nil, fmt.Errorf("%v in %q", err, txt)
		}
		out = append(out, vals...)
	}
	return out, nil
}

// readSexp reads one balanced s-expression from the solver.
func (s *Solver) readSexp() (string, error) {
	var sb strings.Builder
	depth := 0
	started := false
	for {
		c, err := s.out.ReadByte()
		if err != nil {
			return sb.String(), err
		}
		if !started {
			if c == '(' {
				started = true
			} else if c == ' ' || c == '\n' || c == '\r' || c == '\t' {
				continue
			} else {
				// atom
				sb.WriteByte(c)
				rest, _ := s.out.ReadString('\n')
				sb.WriteString(rest)
				return sb.String(), nil
			}
		}
		sb.WriteByte(c)
		if c == '(' {
			depth++
		} else if c == ')' {
			depth--
			if depth == 0 {
				return sb.String(), nil
			}
		}
	}
}

// parseValues parses ((name val) (name val) ...) where val is #x.., #b.., true/false, (_ bvN w).
func parseValues(txt string, n int) ([]uint64, error) {
	if strings.HasPrefix(txt, "(error") {
		return nil, fmt.Errorf("solver error")
	}
	var out []uint64
	i := 0
	// skip outer '('
	for i < len(txt) && txt[i] != '(' {
		i++
	}
	i++
	for len(out) < n {
		for i < len(txt) && txt[i] != '(' {
			i++
		}
		if i >= len(txt) {
			return nil, fmt.Errorf("short get-value answer")
		}
		i++ // '('
		// name: atom (no nested parens for our names)
		for i < len(txt) && txt[i] != ' ' {
			i++
		}
		for i < len(txt) && txt[i] == ' ' {
			i++
		}
		// value
		if txt[i] == '(' {
			// (_ bvN w)
			j := strings.IndexByte(txt[i:], ')')
			f := strings.Fields(txt[i+1 : i+j])
			if len(f) != 3 || !strings.HasPrefix(f[1], "bv") {
				return nil, fmt.Errorf("bad value")
			}
			v, err := strconv.ParseUint(f[1][2:], 10, 64)
			if err != nil {
				return nil, err
			}
			out = append(out, v)
			i += j + 1
		} else {
			j := i
			for j < len(txt) && txt[j] != ')' && txt[j] != ' ' {
				j++
			}
			tok := txt[i:j]
			switch {
			case tok == "true":
				out = append(out, 1)
			case tok == "false":
				out = append(out, 0)
			case strings.HasPrefix(tok, "#x"):
				v, err := strconv.ParseUint(tok[2:], 16, 64)
				if err != nil {
					return nil, err
				}
				out = append(out, v)
			case strings.HasPrefix(tok, "#b"):
				v, err := strconv.ParseUint(tok[2:], 2, 64)
				if err != nil {
					return nil, err
				}
				out = append(out, v)
			default:
				return nil, fmt.Errorf("bad value token %q", tok)
			}
			i = j
		}
		for i < len(txt) && txt[i] != ')' {
			i++
		}
		i++
	}
	return out, nil
}

// StandaloneCheck decides the conjunction of the assertions in a fresh,
// non-incremental solver process (z3's one-shot QF_BV tactic bit-blasts and is
// often much faster than the incremental core on arithmetic-heavy queries).
func StandaloneCheck(bin string, assertions []*Term, timeoutMs int) SatResult {
	var buf bytes.Buffer
	s := &Solver{emitted: make(map[*Term]int), byLevel: [][]*Term{nil}, in: bufio.NewWriter(&buf)}
	s.send("(set-logic QF_BV)")
	for _, a := range assertions {
		if a.isConst() {
			if a.k == 0 {
				return Unsat
			}
			continue
		}
		s.Assert(a)
	}
	s.send("(check-sat)")
	s.in.Flush()
	args := []string{"-in", "-smt2", fmt.Sprintf("-T:%d", (timeoutMs+999)/1000)}
	if strings.Contains(bin, "cvc5") {
		args = []string{"--lang=smt2", fmt.Sprintf("--tlimit=%d", timeoutMs)}
	}
	cmd := exec.Command(bin, args...)
	cmd.Stdin = &buf
	out, _ := cmd.Output()
	txt := strings.TrimSpace(string(out))
	switch {
	case strings.HasPrefix(txt, "unsat"):
		return Unsat
	case strings.HasPrefix(txt, "sat"):
		return Sat
	}
	return Unknown
}
