package main

import (
	"fmt"
	"go/token"
	"go/types"
	"math"
	"unicode/utf8"
	"unsafe"
)

// runtimePanic raises a Go-level run-time panic inside the interpreted program.
func (fr *frame) runtimePanic(msg string) {
	panic(&goPanic{val: fr.g.w.prog.runtimeError(msg), site: fr.stableSite(), msg: "runtime error: " + msg, runtime: true})
}

func (fr *frame) binop(op token.Token, t types.Type, x, y Value) Value {
	p := fr.g.p
	switch x.K {
	case KInt:
		return fr.intBinop(op, t, x, y)
	case KBool:
		switch op {
		case token.EQL, token.NEQ:
			var r Value
			if x.R == nil && y.R == nil {
				r = mkBool(x.N == y.N)
			} else {
				r = mkTermBool(p.ts.Eq(p.ts.toTerm(x), p.ts.toTerm(y)))
			}
			if op == token.NEQ {
				return fr.not(r)
			}
			return r
		case token.AND, token.OR, token.XOR:
			// not produced for bools by the SSA builder, but be safe
			if x.R == nil && y.R == nil {
				switch op {
				case token.AND:
					return mkBool(x.N&y.N != 0)
				case token.OR:
					return mkBool(x.N|y.N != 0)
				default:
					return mkBool(x.N != y.N)
				}
			}
		}
	case KFloat:
		if x.R != nil || y.R != nil {
			// opaque float (derived from symbolic integers): arithmetic stays opaque
			switch op {
			case token.ADD, token.SUB, token.MUL, token.QUO:
				return Value{K: KFloat, W: x.W, R: opaqueFloat{}}
			}
			p.unsupported("comparison of an opaque (symbolic) float")
		}
		a, b := math.Float64frombits(x.N), math.Float64frombits(y.N)
		var r float64
		switch op {
		case token.ADD:
			r = a + b
		case token.SUB:
			r = a - b
		case token.MUL:
			r = a * b
		case token.QUO:
			r = a / b
		case token.EQL:
			return mkBool(a == b)
		case token.NEQ:
			return mkBool(a != b)
		case token.LSS:
			return mkBool(a < b)
		case token.LEQ:
			return mkBool(a <= b)
		case token.GTR:
			return mkBool(a > b)
		case token.GEQ:
			return mkBool(a >= b)
		default:
			p.unsupported("float binop %v", op)
		}
		if x.W == 32 {
			r = float64(float32(r))
		}
		return Value{K: KFloat, W: x.W, N: math.Float64bits(r)}
	case KStr:
		switch op {
		case token.ADD:
			xs, xok := concStr(x)
			ys, yok := concStr(y)
			if xok && yok {
				return mkStr(xs + ys)
			}
			b := append(append([]Value{}, strBytes(x)...), strBytes(y)...)
			return mkStrBytes(b)
		case token.EQL:
			return fr.strEq(x, y)
		case token.NEQ:
			return fr.not(fr.strEq(x, y))
		case token.LSS, token.LEQ, token.GTR, token.GEQ:
			xs, xok := concStr(x)
			ys, yok := concStr(y)
			if xok && yok {
				switch op {
				case token.LSS:
					return mkBool(xs < ys)
				case token.LEQ:
					return mkBool(xs <= ys)
				case token.GTR:
					return mkBool(xs > ys)
				default:
					return mkBool(xs >= ys)
				}
			}
			c := fr.strCompare(x, y)
			switch op {
			case token.LSS:
				return mkBool(c < 0)
			case token.LEQ:
				return mkBool(c <= 0)
			case token.GTR:
				return mkBool(c > 0)
			default:
				return mkBool(c >= 0)
			}
		}
	}
	switch op {
	case token.EQL:
		return fr.equal(t, x, y)
	case token.NEQ:
		return fr.not(fr.equal(t, x, y))
	}
	p.unsupported("binop %v on %s", op, kindNames[x.K])
	return Value{}
}

func (fr *frame) not(v Value) Value {
	if v.R == nil {
		return mkBool(v.N == 0)
	}
	return mkTermBool(fr.g.p.ts.Not(v.term()))
}

// strCompare compares two strings with possibly symbolic bytes by forking byte-wise.
func (fr *frame) strCompare(x, y Value) int {
	p := fr.g.p
	xb, yb := strBytes(x), strBytes(y)
	n := min(len(xb), len(yb))
	for i := 0; i < n; i++ {
		a, b := xb[i], yb[i]
		if a.R == nil && b.R == nil {
			if a.N != b.N {
				if a.N < b.N {
					return -1
				}
				return 1
			}
			continue
		}
		ta, tb := p.ts.toTerm(a), p.ts.toTerm(b)
		if p.decideBool(p.ts.Eq(ta, tb)) {
			continue
		}
		if p.decideBool(p.ts.Ult(ta, tb)) {
			return -1
		}
		return 1
	}
	switch {
	case len(xb) < len(yb):
		return -1
	case len(xb) > len(yb):
		return 1
	}
	return 0
}

func (fr *frame) strEq(x, y Value) Value {
	xs, xok := concStr(x)
	ys, yok := concStr(y)
	if xok && yok {
		return mkBool(xs == ys)
	}
	if strLen(x) != strLen(y) {
		return mkBool(false)
	}
	return fr.bytesEq(strBytes(x), strBytes(y))
}

func (fr *frame) bytesEq(xb, yb []Value) Value {
	ts := fr.g.p.ts
	if len(xb) != len(yb) {
		return mkBool(false)
	}
	acc := ts.True
	for i := range xb {
		a, b := xb[i], yb[i]
		if a.R == nil && b.R == nil {
			if a.N != b.N {
				return mkBool(false)
			}
			continue
		}
		acc = ts.And(acc, ts.Eq(ts.toTerm(a), ts.toTerm(b)))
		if acc == ts.False {
			return mkBool(false)
		}
	}
	return mkTermBool(acc)
}

func (fr *frame) and(a, b Value) Value {
	if a.R == nil {
		if a.N == 0 {
			return a
		}
		return b
	}
	if b.R == nil {
		if b.N == 0 {
			return b
		}
		return a
	}
	return mkTermBool(fr.g.p.ts.And(a.term(), b.term()))
}

// equal implements == for arbitrary comparable values; the result may be symbolic.
func (fr *frame) equal(t types.Type, x, y Value) Value {
	p := fr.g.p
	switch x.K {
	case KNil:
		// untyped nil against something
		return mkBool(y.R == nil && (y.K == KNil || y.K == KPtr || y.K == KSlice || y.K == KMap || y.K == KChan || y.K == KFunc || y.K == KIface))
	case KInt, KBool:
		if y.K == KNil {
			return mkBool(false)
		}
		if x.R == nil && y.R == nil {
			return mkBool(x.N == y.N)
		}
		return mkTermBool(p.ts.Eq(p.ts.toTerm(x), p.ts.toTerm(y)))
	case KFloat:
		return mkBool(math.Float64frombits(x.N) == math.Float64frombits(y.N))
	case KStr:
		return fr.strEq(x, y)
	case KPtr:
		return mkBool(x.R == y.R || (x.R == nil && y.R == nil))
	case KChan, KMap:
		if x.R == nil || y.R == nil {
			return mkBool(x.R == nil && y.R == nil)
		}
		return mkBool(x.R == y.R)
	case KSlice:
		// only comparison with nil is legal
		if y.R == nil || y.K == KNil {
			return mkBool(x.R == nil)
		}
		if x.R == nil {
			return mkBool(false)
		}
		p.unsupported("slice comparison")
	case KFunc:
		if y.R == nil || y.K == KNil {
			return mkBool(x.R == nil)
		}
		if x.R == nil {
			return mkBool(y.R == nil)
		}
		p.unsupported("func comparison")
	case KAgg:
		xa, ya := x.agg(), y.agg()
		if len(xa) != len(ya) {
			return mkBool(false)
		}
		acc := mkBool(true)
		for i := range xa {
			acc = fr.and(acc, fr.equal(nil, xa[i], ya[i]))
			if acc.R == nil && acc.N == 0 {
				return acc
			}
		}
		return acc
	case KIface:
		if y.K == KNil {
			return mkBool(x.R == nil)
		}
		if y.K != KIface {
			p.unsupported("iface == %s", kindNames[y.K])
		}
		xi, yi := x.iface(), y.iface()
		if xi == nil || yi == nil {
			return mkBool(xi == nil && yi == nil)
		}
		if !types.Identical(xi.T, yi.T) {
			return mkBool(false)
		}
		if !types.Comparable(xi.T) {
			panic(&goPanic{val: fr.g.w.prog.runtimeError("comparing uncomparable type " + xi.T.String()), site: fr.stableSite(), msg: "runtime error: comparing uncomparable type " + xi.T.String(), runtime: true})
		}
		return fr.equal(xi.T, xi.V, yi.V)
	case KOpaque:
		return mkBool(x.R == y.R)
	case KComplex:
		return mkBool(x.R.(complex128) == y.R.(complex128))
	}
	p.unsupported("equal on %s", kindNames[x.K])
	return Value{}
}

// truth forces a boolean value to a concrete one (forking if symbolic).
func (fr *frame) truth(v Value) bool {
	if v.K != KBool {
		panic("truth of non-bool " + kindNames[v.K])
	}
	if v.R == nil {
		return v.N != 0
	}
	return fr.g.p.decideBool(v.term())
}

func (fr *frame) intBinop(op token.Token, t types.Type, x, y Value) Value {
	p := fr.g.p
	ts := p.ts
	signed := isSigned(t)
	w := x.W
	// shifts: y may have a different width
	if op == token.SHL || op == token.SHR {
		return fr.shift(op, signed, x, y)
	}
	if y.K != KInt {
		p.unsupported("int binop with %s", kindNames[y.K])
	}
	if x.R == nil && y.R == nil {
		a, b := x.N, y.N
		switch op {
		case token.ADD:
			return mkInt(w, a+b)
		case token.SUB:
			return mkInt(w, a-b)
		case token.MUL:
			return mkInt(w, a*b)
		case token.QUO, token.REM:
			if b == 0 {
				fr.runtimePanic("integer divide by zero")
			}
			var o Op
			switch {
			case op == token.QUO && signed:
				o = OpSDiv
			case op == token.QUO:
				o = OpUDiv
			case signed:
				o = OpSRem
			default:
				o = OpURem
			}
			r, _ := foldBin(o, w, a, b)
			return mkInt(w, r)
		case token.AND:
			return mkInt(w, a&b)
		case token.OR:
			return mkInt(w, a|b)
		case token.XOR:
			return mkInt(w, a^b)
		case token.AND_NOT:
			return mkInt(w, a&^b)
		case token.EQL:
			return mkBool(a == b)
		case token.NEQ:
			return mkBool(a != b)
		}
		if signed {
			sa, sb := sext64(a, w), sext64(b, w)
			switch op {
			case token.LSS:
				return mkBool(sa < sb)
			case token.LEQ:
				return mkBool(sa <= sb)
			case token.GTR:
				return mkBool(sa > sb)
			case token.GEQ:
				return mkBool(sa >= sb)
			}
		} else {
			switch op {
			case token.LSS:
				return mkBool(a < b)
			case token.LEQ:
				return mkBool(a <= b)
			case token.GTR:
				return mkBool(a > b)
			case token.GEQ:
				return mkBool(a >= b)
			}
		}
		p.unsupported("int binop %v", op)
	}
	a, b := ts.toTerm(x), ts.toTerm(y)
	switch op {
	case token.ADD:
		return p.norm(mkTermInt(ts.Bin(OpAdd, a, b)))
	case token.SUB:
		return p.norm(mkTermInt(ts.Bin(OpSub, a, b)))
	case token.MUL:
		return p.norm(mkTermInt(ts.Bin(OpMul, a, b)))
	case token.QUO, token.REM:
		if p.decideBool(ts.Eq(b, ts.Const(w, 0))) {
			fr.runtimePanic("integer divide by zero")
		}
		var o Op
		switch {
		case op == token.QUO && signed:
			o = OpSDiv
		case op == token.QUO:
			o = OpUDiv
		case signed:
			o = OpSRem
		default:
			o = OpURem
		}
		return p.norm(mkTermInt(ts.Bin(o, a, b)))
	case token.AND:
		return p.norm(mkTermInt(ts.Bin(OpAnd, a, b)))
	case token.OR:
		return p.norm(mkTermInt(ts.Bin(OpOr, a, b)))
	case token.XOR:
		return p.norm(mkTermInt(ts.Bin(OpXor, a, b)))
	case token.AND_NOT:
		return p.norm(mkTermInt(ts.Bin(OpAnd, a, ts.BVNot(b))))
	case token.EQL:
		return p.norm(mkTermBool(ts.Eq(a, b)))
	case token.NEQ:
		return p.norm(mkTermBool(ts.Not(ts.Eq(a, b))))
	case token.LSS:
		if signed {
			return p.norm(mkTermBool(ts.Slt(a, b)))
		}
		return p.norm(mkTermBool(ts.Ult(a, b)))
	case token.LEQ:
		if signed {
			return p.norm(mkTermBool(ts.Sle(a, b)))
		}
		return p.norm(mkTermBool(ts.Ule(a, b)))
	case token.GTR:
		if signed {
			return p.norm(mkTermBool(ts.Slt(b, a)))
		}
		return p.norm(mkTermBool(ts.Ult(b, a)))
	case token.GEQ:
		if signed {
			return p.norm(mkTermBool(ts.Sle(b, a)))
		}
		return p.norm(mkTermBool(ts.Ule(b, a)))
	}
	p.unsupported("symbolic int binop %v", op)
	return Value{}
}

func (fr *frame) shift(op token.Token, signed bool, x, y Value) Value {
	p := fr.g.p
	ts := p.ts
	w := x.W
	// the shift count: force concrete (shift counts are almost always constants)
	var cnt uint64
	if y.R != nil {
		cnt = p.concretize(y.term())
	} else {
		cnt = y.N
	}
	// a negative signed count panics; ssa passes the count with its own type, we only
	// see the bits: treat huge counts as >= width (Go semantics for unsigned counts).
	if x.R == nil {
		var o Op
		switch {
		case op == token.SHL:
			o = OpShl
		case signed:
			o = OpAShr
		default:
			o = OpLShr
		}
		r, _ := foldBin(o, w, x.N, cnt)
		return mkInt(w, r)
	}
	a := x.term()
	c := ts.Const(w, min(cnt, uint64(w)))
	switch {
	case op == token.SHL:
		return p.norm(mkTermInt(ts.Bin(OpShl, a, c)))
	case signed:
		if cnt >= uint64(w) {
			c = ts.Const(w, uint64(w)-1)
		}
		return p.norm(mkTermInt(ts.Bin(OpAShr, a, c)))
	default:
		return p.norm(mkTermInt(ts.Bin(OpLShr, a, c)))
	}
}

// norm replaces a term that the path has bound to a constant.
func (p *Path) norm(v Value) Value {
	if v.R == nil {
		return v
	}
	t, ok := v.R.(*Term)
	if !ok {
		return v
	}
	if t.isConst() {
		if v.K == KBool {
			return mkBool(t.k != 0)
		}
		return mkInt(t.w, t.k)
	}
	if v.K == KInt {
		if c, ok := p.bound[t]; ok {
			return mkInt(t.w, c)
		}
	} else if v.K == KBool {
		if c, ok := p.decided[t]; ok {
			return mkBool(c)
		}
	}
	return v
}

func (fr *frame) unop(op token.Token, t types.Type, x Value) Value {
	p := fr.g.p
	switch op {
	case token.NOT:
		return fr.not(x)
	case token.SUB:
		switch x.K {
		case KInt:
			if x.R == nil {
				return mkInt(x.W, -x.N)
			}
			return mkTermInt(p.ts.Neg(x.term()))
		case KFloat:
			return Value{K: KFloat, W: x.W, N: math.Float64bits(-math.Float64frombits(x.N))}
		}
	case token.XOR:
		if x.K == KInt {
			if x.R == nil {
				return mkInt(x.W, ^x.N)
			}
			return mkTermInt(p.ts.BVNot(x.term()))
		}
	}
	p.unsupported("unop %v on %s", op, kindNames[x.K])
	return Value{}
}

// conv implements ssa.Convert.
func (fr *frame) conv(dst, src types.Type, x Value) Value {
	p := fr.g.p
	ud, us := dst.Underlying(), src.Underlying()
	switch ud := ud.(type) {
	case *types.Basic:
		switch {
		case ud.Kind() == types.UnsafePointer:
			switch x.K {
			case KPtr:
				return x
			case KInt:
				// uintptr -> unsafe.Pointer
				if x.R == nil && x.N == 0 {
					return Value{K: KPtr}
				}
				if x.R == nil {
					return Value{K: KPtr, R: (*Value)(unsafe.Pointer(uintptr(x.N)))}
				}
			}
			p.unsupported("conversion to unsafe.Pointer from %s", kindNames[x.K])
		case ud.Info()&types.IsInteger != 0:
			w := intWidth(ud)
			switch x.K {
			case KInt:
				if x.R == nil {
					if isSigned(src) {
						return mkInt(w, uint64(sext64(x.N, x.W)))
					}
					return mkInt(w, x.N)
				}
				t := x.term()
				if w <= t.w {
					return p.norm(mkTermInt(p.ts.Extract(t, w-1, 0)))
				}
				if isSigned(src) {
					return p.norm(mkTermInt(p.ts.SExt(t, w)))
				}
				return p.norm(mkTermInt(p.ts.ZExt(t, w)))
			case KFloat:
				if x.R != nil {
					p.unsupported("opaque float to integer conversion")
				}
				f := math.Float64frombits(x.N)
				if ud.Info()&types.IsUnsigned != 0 {
					return mkInt(w, uint64(f))
				}
				return mkInt(w, uint64(int64(f)))
			case KPtr:
				// unsafe.Pointer -> uintptr
				if x.R == nil {
					return mkInt(w, 0)
				}
				return mkInt(w, uint64(uintptr(unsafe.Pointer(x.ptr()))))
			}
		case ud.Info()&types.IsFloat != 0:
			fw := uint8(64)
			if ud.Kind() == types.Float32 {
				fw = 32
			}
			switch x.K {
			case KInt:
				if x.R != nil {
					return Value{K: KFloat, W: fw, R: opaqueFloat{}}
				}
				var f float64
				if isSigned(src) {
					f = float64(sext64(x.N, x.W))
				} else {
					f = float64(x.N)
				}
				if fw == 32 {
					f = float64(float32(f))
				}
				return Value{K: KFloat, W: fw, N: math.Float64bits(f)}
			case KFloat:
				if x.R != nil {
					return Value{K: KFloat, W: fw, R: opaqueFloat{}}
				}
				f := math.Float64frombits(x.N)
				if fw == 32 {
					f = float64(float32(f))
				}
				return Value{K: KFloat, W: fw, N: math.Float64bits(f)}
			}
		case ud.Info()&types.IsString != 0:
			switch x.K {
			case KStr:
				return x
			case KInt:
				// string(rune)
				if x.R != nil {
					x = mkInt(x.W, p.concretize(x.term()))
				}
				r := rune(sext64(x.N, x.W))
				if x.N > 0x10ffff {
					r = utf8.RuneError
				}
				return mkStr(string(r))
			case KSlice:
				elem := us.(*types.Slice).Elem().Underlying().(*types.Basic)
				if elem.Kind() == types.Uint8 {
					return mkStrBytes(x.slice())
				}
				// []rune
				var rs []rune
				for _, e := range x.slice() {
					if e.R != nil {
						e = mkInt(e.W, p.concretize(e.term()))
					}
					rs = append(rs, rune(e.N))
				}
				return mkStr(string(rs))
			}
		case ud.Info()&types.IsComplex != 0:
			if x.K == KComplex {
				return x
			}
		}
	case *types.Slice:
		if x.K == KStr {
			elem := ud.Elem().Underlying().(*types.Basic)
			if elem.Kind() == types.Uint8 {
				b := strBytes(x)
				cp := make([]Value, len(b))
				copy(cp, b)
				if len(cp) == 0 {
					cp = []Value{}
				}
				return Value{K: KSlice, R: cp}
			}
			s, ok := concStr(x)
			if !ok {
				p.unsupported("[]rune of symbolic string")
			}
			var out []Value
			for _, r := range s {
				out = append(out, mkInt(32, uint64(r)))
			}
			if out == nil {
				out = []Value{}
			}
			return Value{K: KSlice, R: out}
		}
		if x.K == KSlice {
			return x
		}
	case *types.Pointer:
		if x.K == KPtr {
			return x
		}
	}
	if x.K == KPtr || x.K == KSlice || x.K == KAgg || x.K == KFunc || x.K == KMap || x.K == KChan {
		return x
	}
	p.unsupported("conversion %v -> %v (%s)", src, dst, kindNames[x.K])
	return Value{}
}

func (fr *frame) site() string {
	if fr == nil || fr.fn == nil {
		return "?"
	}
	s := fr.fn.String()
	if fr.cur != nil {
		s += ":" + instrString(fr.cur)
	}
	return s
}

func instrString(i interface{ String() string }) string {
	return fmt.Sprintf("%T(%s)", i, i.String())
}

// stableSite names a program point without SSA register names or line numbers.
func (fr *frame) stableSite() string {
	if fr == nil || fr.fn == nil {
		return "?"
	}
	return fr.fn.String() + ":" + stableInstr(fr.cur)
}

// opaqueFloat marks a float whose value derives from symbolic integers; only
// arithmetic is allowed on it (no comparison, no conversion back to integers).
type opaqueFloat struct{}
