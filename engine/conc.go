package main

// Cooperative goroutines inside one path: every interpreted goroutine is a real
// goroutine but exactly one of them holds the baton at any time.  Scheduling
// points are blocking operations, goroutine exit and explicit yields.

import (
	"fmt"
	"go/types"
	"sort"

	"golang.org/x/tools/go/ssa"
)

type Goroutine struct {
	id      int
	p       *Path
	w       *Worker
	wake    chan struct{}
	state   int // 0 runnable, 1 blocked, 2 done
	canRun  func() bool
	reason  string
	started bool
	fnv     Value
	args    []Value
	exited  chan struct{}
	curFr   *frame
}

const (
	gRunnable = iota
	gBlocked
	gDone
)

type Sched struct {
	p       *Path
	gs      []*Goroutine
	cur     *Goroutine
	dead    bool
	timers  []*vtimer
	now     int64 // virtual nanoseconds since start
	preempt int   // remaining pre-emption budget for non-forced switches
	switches int
	events  []string
}

type vtimer struct {
	when   int64
	seq    int
	fire   func(g *Goroutine) // runs on the scheduler's behalf in goroutine context
	active bool
	ch     *Chan
	period int64
}

type killed struct{}

func newSched(p *Path) *Sched {
	return &Sched{p: p}
}

func (s *Sched) newG() *Goroutine {
	g := &Goroutine{id: len(s.gs), p: s.p, w: s.p.w, wake: make(chan struct{}, 1), exited: make(chan struct{})}
	s.gs = append(s.gs, g)
	return g
}

// spawn implements the go statement.
func (g *Goroutine) spawn(fr *frame, fnv Value, args []Value) {
	s := g.p.sched
	ng := s.newG()
	ng.fnv = fnv
	ng.args = args
	ng.state = gRunnable
	if r := g.p.race; r != nil {
		r.fork(g, ng)
	}
	go ng.main()
	g.visible() // the new goroutine may run before its creator continues
}

func (g *Goroutine) main() {
	<-g.wake // wait for the baton
	s := g.p.sched
	defer close(g.exited)
	defer func() {
		r := recover()
		if r == nil {
			return
		}
		switch r := r.(type) {
		case killed:
			return
		case *goPanic:
			// unrecovered panic in a goroutine: the whole program dies
			s.p.pendingAbort = &pathAbort{"gopanic", ""}
			s.p.pendingPanic = r
		case *pathAbort:
			s.p.pendingAbort = r
		default:
			s.p.pendingAbort = &pathAbort{"enginebug", fmt.Sprintf("%v", r)}
			s.p.pendingBug = r
		}
		// hand the baton to main so that it can unwind
		g.state = gDone
		m := s.gs[0]
		m.state = gRunnable
		s.cur = m
		m.wake <- struct{}{}
	}()
	if s.dead {
		panic(killed{})
	}
	g.started = true
	g.call(nil, g.fnv, g.args)
	g.state = gDone
	s.schedule(g, true)
}

// block parks the current goroutine until cond() holds.
func (g *Goroutine) block(reason string, cond func() bool) {
	for !cond() {
		g.state = gBlocked
		g.canRun = cond
		g.reason = reason
		g.p.sched.schedule(g, false)
	}
	g.state = gRunnable
	g.canRun = nil
}

// yield lets other runnable goroutines proceed (explicit scheduling point).
// visible marks an operation other goroutines can observe (go, channel operations,
// select, atomics): a scheduling point when the harness asked for them (vSchedPoints(2)).
func (g *Goroutine) visible() {
	if g.p.schedForks && g.p.schedPoints >= 2 && g.w.initDepth == 0 {
		g.yield()
	}
}

func (g *Goroutine) yield() {
	s := g.p.sched
	if len(s.gs) == 1 {
		return
	}
	g.state = gRunnable
	s.schedule(g, false)
}

func (s *Sched) runnable() []*Goroutine {
	var out []*Goroutine
	for _, g := range s.gs {
		if g.state == gRunnable || (g.state == gBlocked && g.canRun != nil && g.canRun()) {
			out = append(out, g)
		}
	}
	return out
}

// schedule picks the next goroutine to run. exiting=true when cur has finished.
func (s *Sched) schedule(cur *Goroutine, exiting bool) {
	for {
		rs := s.runnable()
		if len(rs) == 0 {
			// nobody can run: advance virtual time or report a deadlock
			if s.fireNextTimer(cur) {
				continue
			}
			if exiting && cur.id != 0 {
				// leave the decision to main: it is blocked forever
			}
			s.deadlock(cur, exiting)
			return
		}
		var next *Goroutine
		if len(rs) == 1 {
			next = rs[0]
		} else {
			if s.p.quiescing {
				// the caller waits for the others: it is not a candidate itself
				var others []*Goroutine
				for _, r := range rs {
					if r != cur {
						others = append(others, r)
					}
				}
				if len(others) > 0 {
					rs = others
				}
			}
			stay := false
			if !exiting && cur.state == gRunnable {
				for _, r := range rs {
					if r == cur {
						stay = true
					}
				}
			}
			if len(rs) == 1 {
				next = rs[0]
			} else if s.p.schedForks && s.p.delayBound {
				// delay-bounded exploration: the default scheduler keeps the current goroutine
				// running (or, when it cannot run, takes the next one round-robin); every
				// deviation from that default costs one unit of the budget
				def := rs[0]
				if stay {
					def = cur
				} else {
					for _, r := range rs {
						if r.id > cur.id {
							def = r
							break
						}
					}
				}
				next = def
				if s.p.delayLeft > 0 {
					next = rs[s.p.choose(len(rs))]
					if next != def {
						s.p.delayLeft--
					}
				}
			} else if s.p.schedForks && stay && s.p.preemptBound && s.p.preemptLeft <= 0 {
				next = cur // pre-emption budget used up: voluntary yields no longer switch
			} else if s.p.schedForks {
				// schedule exploration: which runnable goroutine continues is a decision
				next = rs[s.p.choose(len(rs))]
				if stay && next != cur && s.p.preemptBound {
					s.p.preemptLeft--
				}
			} else {
				// deterministic round-robin: the next goroutine id after the current one
				next = rs[0]
				for _, r := range rs {
					if r.id > cur.id {
						next = r
						break
					}
				}
			}
		}
		s.switches++
		if next == cur && !exiting {
			cur.state = gRunnable
			return
		}
		s.cur = next
		if next.state == gBlocked {
			next.state = gRunnable
		}
		next.wake <- struct{}{}
		if exiting {
			return
		}
		<-cur.wake
		if s.dead {
			panic(killed{})
		}
		if cur.id == 0 && s.p.pendingAbort != nil {
			s.p.rethrowPending()
		}
		if cur.state != gBlocked || cur.canRun == nil || cur.canRun() {
			cur.state = gRunnable
			return
		}
		// spurious wake-up: loop and reschedule
	}
}

func (s *Sched) deadlock(cur *Goroutine, exiting bool) {
	var why []string
	for _, g := range s.gs {
		if g.state == gBlocked {
			why = append(why, fmt.Sprintf("g%d:%s", g.id, g.reason))
		}
	}
	sort.Strings(why)
	msg := fmt.Sprintf("all goroutines blocked: %v", why)
	if cur.id == 0 {
		s.p.deadlocked(msg)
		return
	}
	// a non-main goroutine detected it: record it, then wake main with a pending abort
	s.p.violation(nil, "deadlock", "main goroutine blocked forever", msg, nil)
	s.p.pendingAbort = &pathAbort{"deadlock", msg}
	m := s.gs[0]
	s.cur = m
	m.wake <- struct{}{}
	if !exiting {
		<-cur.wake
		panic(killed{})
	}
}

// killAll terminates every parked goroutine (end of path).
func (s *Sched) killAll() {
	s.dead = true
	for _, g := range s.gs[1:] {
		if g.state == gDone && g.started {
			<-g.exited
			continue
		}
		select {
		case g.wake <- struct{}{}:
		default:
		}
		<-g.exited
	}
}

// liveOthers counts goroutines other than main that have not finished.
func (s *Sched) liveOthers() int {
	n := 0
	for _, g := range s.gs[1:] {
		if g.state != gDone {
			n++
		}
	}
	return n
}

// ---- virtual time

func (s *Sched) addTimer(d int64, fire func(g *Goroutine)) *vtimer {
	if d < 0 {
		d = 0
	}
	t := &vtimer{when: s.now + d, seq: len(s.timers), fire: fire, active: true}
	s.timers = append(s.timers, t)
	return t
}

func (s *Sched) fireNextTimer(cur *Goroutine) bool {
	var best *vtimer
	for _, t := range s.timers {
		if !t.active {
			continue
		}
		if best == nil || t.when < best.when || (t.when == best.when && t.seq < best.seq) {
			best = t
		}
	}
	if best == nil {
		return false
	}
	if best.when > s.now {
		s.now = best.when
	}
	// every timer due at this instant fires before any goroutine runs again
	// (simultaneous events are simultaneous), in creation order
	for {
		var due *vtimer
		for _, t := range s.timers {
			if t.active && t.when <= s.now && (due == nil || t.seq < due.seq) {
				due = t
			}
		}
		if due == nil {
			break
		}
		due.active = false
		due.fire(cur)
	}
	return true
}

// ---- channels

type Chan struct {
	cap    int
	elem   types.Type
	buf    []Value
	closed bool
	recvq  []*waiter
	sendq  []*waiter
}

type waiter struct {
	g    *Goroutine
	sel  *selState
	idx  int // case index within the select
	val  Value
	done bool // for plain ops
	ok   bool
}

type selState struct {
	done   bool
	chosen int
	val    Value
	ok     bool
}

func newChan(n int, elem types.Type) *Chan { return &Chan{cap: n, elem: elem} }

func (w *waiter) active() bool {
	if w.sel != nil {
		return !w.sel.done
	}
	return !w.done
}

func firstActive(q *[]*waiter) *waiter {
	for len(*q) > 0 {
		w := (*q)[0]
		if w.active() {
			return w
		}
		*q = (*q)[1:]
	}
	return nil
}

func (w *waiter) complete(v Value, ok bool) {
	if w.sel != nil {
		w.sel.done = true
		w.sel.chosen = w.idx
		w.sel.val = v
		w.sel.ok = ok
	} else {
		w.done = true
		w.val = v
		w.ok = ok
	}
}

func (c *Chan) canSend() bool {
	return c.closed || firstActive(&c.recvq) != nil || len(c.buf) < c.cap
}
func (c *Chan) canRecv() bool {
	return c.closed || len(c.buf) > 0 || firstActive(&c.sendq) != nil
}

// trySend performs a send if possible right now.
func (g *Goroutine) trySend(fr *frame, c *Chan, v Value) bool {
	if c.closed {
		panic(&goPanic{val: g.w.prog.runtimeError("send on closed channel"), site: fr.stableSite(), msg: "send on closed channel", runtime: true})
	}
	if r := firstActive(&c.recvq); r != nil {
		c.recvq = c.recvq[1:]
		r.complete(copyVal(v), true)
		return true
	}
	if len(c.buf) < c.cap {
		c.buf = append(c.buf, copyVal(v))
		return true
	}
	return false
}

func (g *Goroutine) tryRecv(c *Chan) (Value, bool, bool) {
	if len(c.buf) > 0 {
		v := c.buf[0]
		c.buf = c.buf[1:]
		// a blocked sender can now move into the buffer
		if s := firstActive(&c.sendq); s != nil {
			c.sendq = c.sendq[1:]
			c.buf = append(c.buf, s.val)
			s.complete(Value{}, true)
		}
		return v, true, true
	}
	if s := firstActive(&c.sendq); s != nil {
		c.sendq = c.sendq[1:]
		v := s.val
		s.complete(Value{}, true)
		return v, true, true
	}
	if c.closed {
		return zero(c.elem), false, true
	}
	return Value{}, false, false
}

func (g *Goroutine) chanSend(fr *frame, cv Value, v Value) {
	g.visible()
	if r := g.p.race; r != nil && cv.R != nil {
		r.release(g, cv.R)
	}
	if cv.R == nil {
		g.block("send on nil chan", func() bool { return false })
		return
	}
	c := cv.R.(*Chan)
	if g.trySend(fr, c, v) {
		return
	}
	w := &waiter{g: g, val: copyVal(v)}
	c.sendq = append(c.sendq, w)
	g.block("chan send", func() bool { return w.done || c.closed })
	if !w.done && c.closed {
		w.done = true
		panic(&goPanic{val: g.w.prog.runtimeError("send on closed channel"), site: fr.stableSite(), msg: "send on closed channel", runtime: true})
	}
}

func (g *Goroutine) chanRecv(fr *frame, cv Value) (Value, bool) {
	g.visible()
	if cv.R == nil {
		g.block("recv on nil chan", func() bool { return false })
		return Value{}, false
	}
	if r := g.p.race; r != nil {
		defer r.acquire(g, cv.R)
	}
	c := cv.R.(*Chan)
	if v, ok, done := g.tryRecv(c); done {
		return v, ok
	}
	w := &waiter{g: g}
	c.recvq = append(c.recvq, w)
	g.block("chan recv", func() bool { return w.done || c.closed })
	if w.done {
		return w.val, w.ok
	}
	w.done = true
	return zero(c.elem), false
}

func (g *Goroutine) chanClose(fr *frame, cv Value) {
	g.visible()
	if cv.R == nil {
		panic(&goPanic{val: g.w.prog.runtimeError("close of nil channel"), site: fr.stableSite(), msg: "close of nil channel", runtime: true})
	}
	c := cv.R.(*Chan)
	if r := g.p.race; r != nil {
		r.release(g, cv.R)
	}
	if c.closed {
		panic(&goPanic{val: g.w.prog.runtimeError("close of closed channel"), site: fr.stableSite(), msg: "close of closed channel", runtime: true})
	}
	c.closed = true
	// receivers get zero values
	for _, r := range c.recvq {
		if r.active() {
			r.complete(zero(c.elem), false)
		}
	}
	c.recvq = nil
}

// selectOp implements ssa.Select.
func (g *Goroutine) selectOp(fr *frame, ins *ssa.Select) Value {
	g.visible()
	type caseInfo struct {
		c    *Chan
		send bool
		val  Value
	}
	cases := make([]caseInfo, len(ins.States))
	for i, st := range ins.States {
		cv := fr.get(st.Chan)
		if cv.R != nil {
			cases[i].c = cv.R.(*Chan)
		}
		if st.Dir == types.SendOnly {
			cases[i].send = true
			cases[i].val = fr.get(st.Send)
		}
	}
	if r := g.p.race; r != nil {
		for _, c := range cases {
			if c.c != nil && c.send {
				r.release(g, c.c)
			}
		}
	}
	result := func(chosen int, rv Value, ok bool) Value {
		if r := g.p.race; r != nil && chosen >= 0 && cases[chosen].c != nil && !cases[chosen].send {
			r.acquire(g, cases[chosen].c)
		}
		out := []Value{mkInt(64, uint64(int64(chosen))), mkBool(ok)}
		for i, st := range ins.States {
			if st.Dir == types.RecvOnly {
				if i == chosen && ok {
					out = append(out, rv)
				} else {
					out = append(out, zero(st.Chan.Type().Underlying().(*types.Chan).Elem()))
				}
			}
		}
		return mkAgg(out)
	}
	for {
		var ready []int
		for i, c := range cases {
			if c.c == nil {
				continue
			}
			if c.send && c.c.canSend() || !c.send && c.c.canRecv() {
				ready = append(ready, i)
			}
		}
		if len(ready) > 0 {
			k := ready[0]
			if len(ready) > 1 {
				k = ready[g.p.choose(len(ready))]
			}
			c := cases[k]
			if c.send {
				if !g.trySend(fr, c.c, c.val) {
					panic("engine: select send not ready")
				}
				return result(k, Value{}, false)
			}
			v, ok, done := g.tryRecv(c.c)
			if !done {
				panic("engine: select recv not ready")
			}
			return result(k, v, ok)
		}
		if !ins.Blocking {
			return result(-1, Value{}, false)
		}
		// park on all channels
		st := &selState{chosen: -1}
		for i, c := range cases {
			if c.c == nil {
				continue
			}
			w := &waiter{g: g, sel: st, idx: i}
			if c.send {
				w.val = copyVal(c.val)
				c.c.sendq = append(c.c.sendq, w)
			} else {
				c.c.recvq = append(c.c.recvq, w)
			}
		}
		g.block("select", func() bool {
			if st.done {
				return true
			}
			for _, c := range cases {
				if c.c != nil && c.c.closed {
					return true
				}
			}
			return false
		})
		if st.done {
			return result(st.chosen, st.val, st.ok)
		}
		st.done = true // cancel registrations; retry (a channel was closed)
	}
}
