package main

// Stub seams: the body of a named repository function gets a prologue that
// diverts to a package-level hook variable when the harness has set it.  The
// rewritten source is overlaid for both the symbolic run and the native replay,
// so a counterexample is replayed against exactly the code that was encoded.

import (
	"fmt"
	"go/ast"
	"go/parser"
	"go/token"
	"os"
	"path/filepath"
	"strings"
)

type seamSpec struct {
	File string // absolute path in /repo
	Func string // function or method name
}

var seams = []seamSpec{
	{"dns/resolve.go", "DoH"},
	{"publish/cloudflare.go", "getZoneData"},
	{"publish/cloudflare.go", "updateRecord"},
}

func applySeams(ov map[string][]byte) error {
	byFile := map[string][]string{}
	for _, s := range seams {
		byFile[filepath.Join(repoRoot, s.File)] = append(byFile[filepath.Join(repoRoot, s.File)], s.Func)
	}
	for file, funcs := range byFile {
		src, err := os.ReadFile(file)
		if err != nil {
			return fmt.Errorf("seam: %v", err)
		}
		out, err := injectHooks(file, src, funcs)
		if err != nil {
			return err
		}
		ov[file] = out
	}
	return nil
}

func injectHooks(file string, src []byte, funcs []string) ([]byte, error) {
	fset := token.NewFileSet()
	f, err := parser.ParseFile(fset, file, src, parser.ParseComments)
	if err != nil {
		return nil, fmt.Errorf("seam: parse %s: %v", file, err)
	}
	text := func(a, b token.Pos) string { return string(src[fset.Position(a).Offset:fset.Position(b).Offset]) }
	type ins struct {
		off  int
		text string
	}
	var inserts []ins
	var decls []string
	for _, name := range funcs {
		var fd *ast.FuncDecl
		for _, d := range f.Decls {
			if x, ok := d.(*ast.FuncDecl); ok && x.Name.Name == name && x.Body != nil {
				fd = x
			}
		}
		if fd == nil {
			return nil, fmt.Errorf("seam: function %s not found in %s (the code changed; the stub seam cannot be placed)", name, file)
		}
		var params, args []string
		addFields := func(fl *ast.FieldList) error {
			if fl == nil {
				return nil
			}
			for _, fld := range fl.List {
				typ := text(fld.Type.Pos(), fld.Type.End())
				if len(fld.Names) == 0 {
					return fmt.Errorf("seam: unnamed parameter in %s", name)
				}
				for _, n := range fld.Names {
					params = append(params, n.Name+" "+typ)
					if _, variadic := fld.Type.(*ast.Ellipsis); variadic {
						args = append(args, n.Name+"...")
					} else {
						args = append(args, n.Name)
					}
				}
			}
			return nil
		}
		if err := addFields(fd.Recv); err != nil {
			return nil, err
		}
		if err := addFields(fd.Type.Params); err != nil {
			return nil, err
		}
		results := ""
		hasResults := fd.Type.Results != nil && len(fd.Type.Results.List) > 0
		if hasResults {
			results = " " + text(fd.Type.Results.Pos(), fd.Type.Results.End())
		}
		hook := "VerifHook_" + name
		decls = append(decls, fmt.Sprintf("var %s func(%s)%s", hook, strings.Join(params, ", "), results))
		call := fmt.Sprintf("%s(%s)", hook, strings.Join(args, ", "))
		pro := fmt.Sprintf("\n\tif %s != nil {\n\t\t", hook)
		if hasResults {
			pro += "return " + call
		} else {
			pro += call + "\n\t\treturn"
		}
		pro += "\n\t}\n"
		inserts = append(inserts, ins{fset.Position(fd.Body.Lbrace).Offset + 1, pro})
	}
	// apply from the end
	out := string(src)
	for i := 0; i < len(inserts); i++ {
		for j := i + 1; j < len(inserts); j++ {
			if inserts[j].off > inserts[i].off {
				inserts[i], inserts[j] = inserts[j], inserts[i]
			}
		}
	}
	for _, in := range inserts {
		out = out[:in.off] + in.text + out[in.off:]
	}
	out += "\n// ---- verification seams (overlay only; /repo is not modified)\n" + strings.Join(decls, "\n") + "\n"
	return []byte(out), nil
}
