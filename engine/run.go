package main

import (
	"fmt"
	"runtime/debug"
	"strings"
)

func (w *Worker) runPath(prefix []Decision) {
	ex := w.ex
	p := &Path{ex: ex, w: w, ts: w.ts, sol: w.sol, prefix: prefix,
		decided: make(map[*Term]bool), bound: make(map[*Term]uint64), side: make(map[any]any)}
	p.fuel = ex.opts.Fuel
	if p.fuel <= 0 {
		p.fuel = 20_000_000
	}
	w.p = p
	w.paths++
	// keep the term table from growing without bound
	if len(w.ts.tab) > 2_000_000 {
		w.ts = NewTermStore()
		p.ts = w.ts
	}
	p.sched = newSched(p)
	g0 := p.sched.newG()
	g0.started = true
	p.sched.cur = g0
	w.sol.Push()
	fn := ex.prog.harnessFn(ex.harness)

	var result any
	func() {
		defer func() {
			result = recover()
		}()
		g0.call(nil, Value{K: KFunc, R: fn}, nil)
	}()
	if p.pendingAbort != nil && result == nil {
		result = p.pendingAbort
	}

	status := "completed"
	switch r := result.(type) {
	case nil:
	case *pathAbort:
		status = r.status
		switch r.status {
		case "assume":
		case "cut":
		case "violation":
		case "unsupported":
			ex.noteInconclusive(r.msg)
		case "gopanic":
			gp := p.pendingPanic
			p.siteOverride = gp.site
			p.violation(nil, "panic", "goroutine: "+firstLine(gp.msg), gp.msg, nil)
		case "hang", "deadlock":
			// recorded where detected
		case "enginebug":
			ex.noteInconclusive("engine bug: " + r.msg)
		default:
			ex.noteInconclusive("abort: " + r.status + " " + r.msg)
		}
	case *goPanic:
		status = "panic"
		p.siteOverride = r.site
		p.violation(nil, "panic", firstLine(r.msg), r.msg, nil)
	default:
		status = "enginebug"
		msg := fmt.Sprintf("engine bug: %v", r)
		if ex.opts.Trace {
			msg += "\n" + string(debug.Stack())
		}
		ex.noteInconclusive(trim(msg, 3000))
	}
	p.status = status
	p.finish(status)
	p.sched.killAll()
	w.sol.Pop()
	if w.sol.level != 0 {
		for w.sol.level > 0 {
			w.sol.Pop()
		}
	}
	w.rollback()
}

func firstLine(s string) string {
	if i := strings.IndexByte(s, '\n'); i >= 0 {
		s = s[:i]
	}
	return trim(s, 160)
}

func trim(s string, n int) string {
	if len(s) > n {
		return s[:n] + "..."
	}
	return s
}

func sameTrace(a, b []Decision) bool {
	if len(a) != len(b) {
		return false
	}
	for i := range a {
		if a[i] != b[i] {
			return false
		}
	}
	return true
}

func (p *Path) finish(status string) {
	ex := p.ex
	var wit *Witness
	var sample string
	if status == "completed" {
		// witness for labels not yet witnessed
		need := false
		ex.mu.Lock()
		for _, l := range p.labels {
			if ex.witnessCount[l] < witnessesPerLabel {
				need = true
			}
		}
		if len(p.labels) == 0 {
			if ex.witnessCount["(end)"] < witnessesPerLabel {
				need = true
			}
		}
		wantSample := len(ex.samples) < 6
		ex.mu.Unlock()
		if need || wantSample {
			if m, ok := p.model(nil); ok {
				vec := p.nondetVector(m)
				if need {
					wit = &Witness{Nondet: vec, Obs: p.renderObs(m)}
				}
				if wantSample {
					sample = fmt.Sprintf("labels=%v decisions=%d nondet=%s", p.labels, len(p.trace), hexVec(vec, 96))
				}
			}
		}
	}
	ex.mu.Lock()
	defer ex.mu.Unlock()
	ex.stats.Decisions += int64(len(p.trace))
	ex.stats.Instr += p.instr
	ex.stats.Checks += int64(p.nchecks)
	if len(p.trace) > ex.stats.MaxDepth {
		ex.stats.MaxDepth = len(p.trace)
	}
	if p.maxLoop > ex.stats.MaxLoopSeen {
		ex.stats.MaxLoopSeen = p.maxLoop
	}
	switch status {
	case "completed":
		ex.stats.Completed++
		for _, l := range p.labels {
			ex.stats.Labels[l]++
		}
		if wit != nil {
			ls := p.labels
			if len(ls) == 0 {
				ls = []string{"(end)"}
			}
			for _, l := range ls {
				if ex.witnessCount[l] < witnessesPerLabel {
					w := *wit
					w.Label = l
					ex.witnesses[fmt.Sprintf("%s#%d", l, ex.witnessCount[l])] = &w
					ex.witnessCount[l]++
					break // one label per path is enough
				}
			}
		}
		if sample != "" && len(ex.samples) < 6 {
			ex.samples = append(ex.samples, sample)
		}
	case "assume":
		ex.stats.Assumed++
	case "cut":
		ex.stats.Cut++
	}
	for _, n := range p.notes {
		ex.notes[n]++
	}
	for k, v := range p.w.opaqueHits {
		ex.opaque[k] += v
		delete(p.w.opaqueHits, k)
	}
}

const witnessesPerLabel = 4

func hexVec(v []uint64, max int) string {
	var sb strings.Builder
	for i, x := range v {
		if i >= max {
			fmt.Fprintf(&sb, "..(+%d)", len(v)-max)
			break
		}
		if x < 256 {
			fmt.Fprintf(&sb, "%02x", x)
		} else {
			fmt.Fprintf(&sb, "[%x]", x)
		}
	}
	return sb.String()
}

func (p *Path) note(s string) { p.notes = append(p.notes, s) }

func (p *Path) fuelOut(fr *frame) {
	p.violation(fr, "hang", "instruction budget exhausted", fmt.Sprintf("more than %d instructions on one path", p.fuel), nil)
	p.abort("hang", "fuel")
}

func (p *Path) loopLimit(fr *frame) {
	if p.inInit > 0 {
		return
	}
	p.violation(fr, "hang", "loop unwinding limit", fmt.Sprintf("a loop header executed more than %d times in one activation", p.ex.opts.LoopLimit), nil)
	p.abort("hang", "loop limit")
}


func (p *Path) deadlocked(msg string) {
	p.violation(nil, "deadlock", "main goroutine blocked forever", msg, nil)
	p.abort("deadlock", msg)
}

func (p *Path) rethrowPending() {
	a := p.pendingAbort
	panic(a)
}

// lockEvent feeds the lock-discipline monitor (see monitor.go).
func (p *Path) lockEvent(g *Goroutine, key *Value, kind byte) {
	if p.lockMon != nil {
		p.lockMon(g, key, kind)
	}
}
