package main

import (
	"fmt"
	"go/token"
	"go/types"
	"math"
	"strings"
	"unsafe"

	"golang.org/x/tools/go/ssa"
)

// Intrinsic models a function of the standard library / runtime.
// handled=false falls through to interpreting the SSA body.
type Intrinsic func(g *Goroutine, caller *frame, fn *ssa.Function, args []Value) (Value, bool)

func (prog *Program) lookupIntrinsic(fn *ssa.Function) Intrinsic {
	name := fn.String()
	if in, ok := prog.intrinsics[name]; ok {
		return in
	}
	if o := fn.Origin(); o != nil && o != fn {
		if in, ok := prog.intrinsics[o.String()]; ok {
			return in
		}
	}
	// harness API: functions whose name starts with "v" + upper-case letter, declared in a zz_verif_ file
	if fn.Pkg != nil && fn.Parent() == nil && fn.Signature.Recv() == nil && len(fn.Name()) > 1 && fn.Name()[0] == 'v' && fn.Name()[1] >= 'A' && fn.Name()[1] <= 'Z' {
		if pos := fn.Pos(); pos.IsValid() {
			file := prog.ssa.Fset.Position(pos).Filename
			if strings.Contains(file, "zz_verif_api") {
				if in, ok := harnessAPI[fn.Name()]; ok {
					return in
				}
				return func(g *Goroutine, caller *frame, fn *ssa.Function, args []Value) (Value, bool) {
					g.p.unsupported("harness API %s has no engine implementation", fn.Name())
					return Value{}, true
				}
			}
		}
	}
	return nil
}

func tup(vs ...Value) Value { return mkAgg(vs) }

func nilErr() Value { return Value{K: KIface} }

func noop(g *Goroutine, caller *frame, fn *ssa.Function, args []Value) (Value, bool) {
	return fn2zero(fn), true
}

func fn2zero(fn *ssa.Function) Value {
	res := fn.Signature.Results()
	switch res.Len() {
	case 0:
		return Value{}
	case 1:
		return zero(res.At(0).Type())
	}
	return zero(res)
}

// forceInt makes an int value concrete by forking.
func (g *Goroutine) forceInt(v Value) int64 {
	if v.R != nil {
		return sext64(g.p.concretize(v.term()), v.W)
	}
	return sext64(v.N, v.W)
}

func (g *Goroutine) forceBool(v Value) bool {
	if v.R != nil {
		return g.p.decideBool(v.term())
	}
	return v.N != 0
}

// byteEq decides a == b for two byte values, forking when symbolic.
func (g *Goroutine) byteEq(a, b Value) bool {
	if a.R == nil && b.R == nil {
		return a.N == b.N
	}
	ts := g.p.ts
	return g.p.decideBool(ts.Eq(ts.toTerm(a), ts.toTerm(b)))
}

func (g *Goroutine) indexByte(b []Value, c Value) int {
	for i := range b {
		if g.byteEq(b[i], c) {
			return i
		}
	}
	return -1
}

func (g *Goroutine) indexBytes(hay, needle []Value) int {
	n := len(needle)
	if n == 0 {
		return 0
	}
outer:
	for i := 0; i+n <= len(hay); i++ {
		for j := 0; j < n; j++ {
			if !g.byteEq(hay[i+j], needle[j]) {
				continue outer
			}
		}
		return i
	}
	return -1
}

func seqBytes(v Value) []Value {
	if v.K == KStr {
		return strBytes(v)
	}
	return v.slice()
}

func side[T any](p *Path, key any, mk func() *T) *T {
	if v, ok := p.side[key]; ok {
		return v.(*T)
	}
	v := mk()
	p.side[key] = v
	return v
}

type mutexState struct {
	locked  bool
	readers int
	holder  int
}
type wgState struct{ n int64 }
type onceState struct{ done, running bool }

// rwReaders keys the clock into which the readers of an RWMutex release.
type rwReaders struct{ mu *Value }

func buildIntrinsics() map[string]Intrinsic {
	m := map[string]Intrinsic{}

	// ---- internal/bytealg
	m["internal/bytealg.IndexByte"] = func(g *Goroutine, c *frame, fn *ssa.Function, a []Value) (Value, bool) {
		return mkInt(64, uint64(int64(g.indexByte(a[0].slice(), a[1])))), true
	}
	m["internal/bytealg.IndexByteString"] = func(g *Goroutine, c *frame, fn *ssa.Function, a []Value) (Value, bool) {
		if s, ok := concStr(a[0]); ok && a[1].R == nil {
			return mkInt(64, uint64(int64(strings.IndexByte(s, byte(a[1].N))))), true
		}
		return mkInt(64, uint64(int64(g.indexByte(strBytes(a[0]), a[1])))), true
	}
	m["internal/bytealg.LastIndexByteString"] = func(g *Goroutine, c *frame, fn *ssa.Function, a []Value) (Value, bool) {
		b := strBytes(a[0])
		for i := len(b) - 1; i >= 0; i-- {
			if g.byteEq(b[i], a[1]) {
				return mkInt(64, uint64(i)), true
			}
		}
		return mkInt(64, ^uint64(0)), true
	}
	count := func(g *Goroutine, c *frame, fn *ssa.Function, a []Value) (Value, bool) {
		n := 0
		for _, b := range seqBytes(a[0]) {
			if g.byteEq(b, a[1]) {
				n++
			}
		}
		return mkInt(64, uint64(n)), true
	}
	m["internal/bytealg.Count"] = count
	m["internal/bytealg.CountString"] = count
	index := func(g *Goroutine, c *frame, fn *ssa.Function, a []Value) (Value, bool) {
		if s, ok := concStr(a[0]); ok && a[0].K == KStr {
			if t, ok := concStr(a[1]); ok {
				return mkInt(64, uint64(int64(strings.Index(s, t)))), true
			}
		}
		return mkInt(64, uint64(int64(g.indexBytes(seqBytes(a[0]), seqBytes(a[1]))))), true
	}
	m["internal/bytealg.Index"] = index
	m["internal/bytealg.IndexString"] = index
	m["internal/bytealg.Equal"] = func(g *Goroutine, c *frame, fn *ssa.Function, a []Value) (Value, bool) {
		return c.bytesEq(a[0].slice(), a[1].slice()), true
	}
	m["internal/bytealg.Compare"] = func(g *Goroutine, c *frame, fn *ssa.Function, a []Value) (Value, bool) {
		r := c.strCompare(mkStrBytes(a[0].slice()), mkStrBytes(a[1].slice()))
		return mkInt(64, uint64(int64(r))), true
	}
	m["internal/bytealg.MakeNoZero"] = func(g *Goroutine, c *frame, fn *ssa.Function, a []Value) (Value, bool) {
		n := g.forceInt(a[0])
		s := make([]Value, n)
		for i := range s {
			s[i] = Value{K: KInt, W: 8}
		}
		return mkSlice(s), true
	}
	m["internal/stringslite.Index"] = nil
	delete(m, "internal/stringslite.Index")
	m["strings.ToUpper"] = concreteStrFn(strings.ToUpper)
	m["strings.ToLower"] = concreteStrFn(strings.ToLower)

	// ---- runtime odds and ends
	for _, n := range []string{"runtime.KeepAlive", "runtime.SetFinalizer", "runtime.Gosched", "runtime.GC",
		"internal/race.Acquire", "internal/race.Release", "internal/race.ReleaseMerge", "internal/race.Disable", "internal/race.Enable",
		"internal/race.Read", "internal/race.Write", "internal/race.ReadRange", "internal/race.WriteRange",
		"log.Printf", "log.Println", "log.Print", "(*log.Logger).Printf", "(*log.Logger).Println",
		"internal/godebug.(*Setting).IncNonDefault", "(*internal/godebug.Setting).IncNonDefault",
		"sync.runtime_registerPoolCleanup", "sync.throw", "sync.fatal",
		"crypto/internal/boring.Unreachable", "crypto/internal/boring.UnreachableExceptTests",
		"crypto/internal/fips140.RecordApproved", "crypto/internal/fips140.RecordNonApproved",
	} {
		m[n] = noop
	}
	m["(*internal/godebug.Setting).Value"] = func(g *Goroutine, c *frame, fn *ssa.Function, a []Value) (Value, bool) {
		return mkStr(""), true
	}
	m["os.Getenv"] = func(g *Goroutine, c *frame, fn *ssa.Function, a []Value) (Value, bool) {
		return mkStr(""), true
	}
	m["runtime.GOMAXPROCS"] = func(g *Goroutine, c *frame, fn *ssa.Function, a []Value) (Value, bool) {
		return mkInt(64, 16), true
	}

	// ---- errors / fmt
	m["errors.Is"] = func(g *Goroutine, c *frame, fn *ssa.Function, a []Value) (Value, bool) {
		return mkBool(g.errorsIs(c, a[0], a[1], 0)), true
	}
	m["errors.As"] = func(g *Goroutine, c *frame, fn *ssa.Function, a []Value) (Value, bool) {
		return mkBool(g.errorsAs(c, a[0], a[1], 0)), true
	}
	m["fmt.Errorf"] = func(g *Goroutine, c *frame, fn *ssa.Function, a []Value) (Value, bool) {
		return g.fmtErrorf(c, a[0], a[1].slice()), true
	}
	m["fmt.Sprintf"] = func(g *Goroutine, c *frame, fn *ssa.Function, a []Value) (Value, bool) {
		v, _ := g.format(c, a[0], a[1].slice(), false)
		return v, true
	}
	m["fmt.Sprint"] = func(g *Goroutine, c *frame, fn *ssa.Function, a []Value) (Value, bool) {
		var parts []Value
		for _, x := range a[0].slice() {
			parts = append(parts, strBytes(g.fmtArg(c, 'v', "%v", x, false))...)
		}
		return mkStrBytes(parts), true
	}
	m["fmt.Fprintf"] = func(g *Goroutine, c *frame, fn *ssa.Function, a []Value) (Value, bool) {
		// only strings.Builder / bytes.Buffer style writers are meaningful; route through Write
		s, _ := g.format(c, a[1], a[2].slice(), false)
		w := a[0].iface()
		if w == nil {
			c.runtimePanic("nil writer")
		}
		wm := g.w.prog.findMethod(w.T, "Write")
		b := strBytes(s)
		cp := make([]Value, len(b))
		copy(cp, b)
		r := g.callSSA(c, wm, []Value{w.V, mkSlice(cp)}, nil)
		return r, true
	}

	// ---- sort
	m["sort.Slice"] = func(g *Goroutine, c *frame, fn *ssa.Function, a []Value) (Value, bool) {
		g.sortSlice(c, a[0], a[1], false)
		return Value{}, true
	}
	m["sort.SliceStable"] = func(g *Goroutine, c *frame, fn *ssa.Function, a []Value) (Value, bool) {
		g.sortSlice(c, a[0], a[1], true)
		return Value{}, true
	}

	// ---- maps
	m["maps.clone"] = func(g *Goroutine, c *frame, fn *ssa.Function, a []Value) (Value, bool) {
		ifc := a[0].iface()
		if ifc == nil || ifc.V.R == nil {
			return a[0], true
		}
		return mkIface(ifc.T, Value{K: KMap, R: ifc.V.R.(*Map).clone()}), true
	}

	// ---- sync
	lock := func(g *Goroutine, c *frame, fn *ssa.Function, a []Value) (Value, bool) {
		key := a[0].ptr()
		st := side(g.p, key, func() *mutexState { return &mutexState{} })
		if g.p.schedForks {
			g.yield() // acquiring a lock is a scheduling point when schedules are explored
		}
		g.block("mutex", func() bool { return !st.locked && st.readers == 0 })
		st.locked = true
		st.holder = g.id
		g.p.lockEvent(g, key, 'L')
		if r := g.p.race; r != nil {
			r.acquire(g, key)
			r.acquire(g, rwReaders{key}) // (RWMutex) every earlier reader's RUnlock happens before this Lock
		}
		return Value{}, true
	}
	unlock := func(g *Goroutine, c *frame, fn *ssa.Function, a []Value) (Value, bool) {
		key := a[0].ptr()
		st := side(g.p, key, func() *mutexState { return &mutexState{} })
		if !st.locked {
			panic(&goPanic{val: g.w.prog.runtimeError("sync: unlock of unlocked mutex"), site: c.stableSite(), msg: "fatal error: sync: unlock of unlocked mutex", runtime: true})
		}
		st.locked = false
		g.p.lockEvent(g, key, 'U')
		if r := g.p.race; r != nil {
			r.release(g, key)
		}
		if g.p.schedForks {
			g.yield() // releasing a lock is a scheduling point when schedules are explored
		}
		return Value{}, true
	}
	m["(*sync.Mutex).Lock"] = lock
	m["(*sync.Mutex).Unlock"] = unlock
	m["(*internal/sync.Mutex).Lock"] = lock
	m["(*internal/sync.Mutex).Unlock"] = unlock
	m["(*sync.Mutex).TryLock"] = func(g *Goroutine, c *frame, fn *ssa.Function, a []Value) (Value, bool) {
		key := a[0].ptr()
		st := side(g.p, key, func() *mutexState { return &mutexState{} })
		if st.locked || st.readers > 0 {
			return mkBool(false), true
		}
		st.locked = true
		return mkBool(true), true
	}
	m["(*sync.RWMutex).Lock"] = lock
	m["(*sync.RWMutex).Unlock"] = unlock
	m["(*sync.RWMutex).RLock"] = func(g *Goroutine, c *frame, fn *ssa.Function, a []Value) (Value, bool) {
		key := a[0].ptr()
		st := side(g.p, key, func() *mutexState { return &mutexState{} })
		g.block("rwmutex", func() bool { return !st.locked })
		st.readers++
		g.p.lockEvent(g, key, 'R')
		if r := g.p.race; r != nil {
			r.acquire(g, key) // after the last writer's Unlock; readers are not ordered among themselves
		}
		return Value{}, true
	}
	m["(*sync.RWMutex).RUnlock"] = func(g *Goroutine, c *frame, fn *ssa.Function, a []Value) (Value, bool) {
		key := a[0].ptr()
		st := side(g.p, key, func() *mutexState { return &mutexState{} })
		if st.readers <= 0 {
			panic(&goPanic{val: g.w.prog.runtimeError("sync: RUnlock of unlocked RWMutex"), site: c.stableSite(), msg: "fatal error: sync: RUnlock of unlocked RWMutex", runtime: true})
		}
		st.readers--
		g.p.lockEvent(g, key, 'r')
		if r := g.p.race; r != nil {
			r.release(g, rwReaders{key}) // seen by the next writer's Lock only
		}
		return Value{}, true
	}
	m["(*sync.WaitGroup).Add"] = func(g *Goroutine, c *frame, fn *ssa.Function, a []Value) (Value, bool) {
		st := side(g.p, a[0].ptr(), func() *wgState { return &wgState{} })
		st.n += g.forceInt(a[1])
		if st.n < 0 {
			panic(&goPanic{val: g.w.prog.runtimeError("sync: negative WaitGroup counter"), site: c.stableSite(), msg: "sync: negative WaitGroup counter", runtime: true})
		}
		return Value{}, true
	}
	m["(*sync.WaitGroup).Done"] = func(g *Goroutine, c *frame, fn *ssa.Function, a []Value) (Value, bool) {
		st := side(g.p, a[0].ptr(), func() *wgState { return &wgState{} })
		if r := g.p.race; r != nil {
			r.release(g, a[0].ptr())
		}
		st.n--
		if st.n < 0 {
			panic(&goPanic{val: g.w.prog.runtimeError("sync: negative WaitGroup counter"), site: c.stableSite(), msg: "sync: negative WaitGroup counter", runtime: true})
		}
		return Value{}, true
	}
	m["(*sync.WaitGroup).Wait"] = func(g *Goroutine, c *frame, fn *ssa.Function, a []Value) (Value, bool) {
		st := side(g.p, a[0].ptr(), func() *wgState { return &wgState{} })
		g.block("waitgroup", func() bool { return st.n == 0 })
		if r := g.p.race; r != nil {
			r.acquire(g, a[0].ptr())
		}
		return Value{}, true
	}
	m["(*sync.Once).Do"] = func(g *Goroutine, c *frame, fn *ssa.Function, a []Value) (Value, bool) {
		st := side(g.p, a[0].ptr(), func() *onceState { return &onceState{} })
		if st.done {
			return Value{}, true
		}
		if st.running {
			g.block("once", func() bool { return st.done })
			return Value{}, true
		}
		st.running = true
		defer func() { st.done = true }()
		g.call(c, a[1], nil)
		return Value{}, true
	}
	m["(*sync.Pool).Get"] = func(g *Goroutine, c *frame, fn *ssa.Function, a []Value) (Value, bool) {
		// Pool{noCopy, local, localSize, victim, victimSize, New}
		// An object that was Put is handed out again (most recent first), as the
		// runtime does on one P: aliasing through recycled objects is visible.
		if st, ok := g.p.side[a[0].ptr()].(*[]Value); ok && len(*st) > 0 {
			v := (*st)[len(*st)-1]
			*st = (*st)[:len(*st)-1]
			return v, true
		}
		pool := a[0].ptr().agg()
		newf := pool[len(pool)-1]
		if newf.R == nil {
			return Value{K: KIface}, true
		}
		return g.call(c, newf, nil), true
	}
	m["(*sync.Pool).Put"] = func(g *Goroutine, c *frame, fn *ssa.Function, a []Value) (Value, bool) {
		if a[1].K == KIface && a[1].R == nil {
			return Value{}, true
		}
		st, ok := g.p.side[a[0].ptr()].(*[]Value)
		if !ok {
			st = new([]Value)
			g.p.side[a[0].ptr()] = st
		}
		*st = append(*st, a[1])
		return Value{}, true
	}

	// ---- sync/atomic
	atomicLoad := func(g *Goroutine, c *frame, fn *ssa.Function, a []Value) (Value, bool) {
		g.visible()
		if r := g.p.race; r != nil {
			r.acquire(g, a[0].ptr())
			return copyVal(*a[0].ptr()), true
		}
		return c.load(a[0].ptr()), true
	}
	atomicStore := func(g *Goroutine, c *frame, fn *ssa.Function, a []Value) (Value, bool) {
		g.visible()
		if r := g.p.race; r != nil {
			r.release(g, a[0].ptr())
			*a[0].ptr() = copyVal(a[1])
			return Value{}, true
		}
		c.store(a[0].ptr(), a[1])
		return Value{}, true
	}
	atomicAdd := func(g *Goroutine, c *frame, fn *ssa.Function, a []Value) (Value, bool) {
		g.visible()
		p := a[0].ptr()
		old := c.load(p)
		nv := c.intBinop(token.ADD, fn.Signature.Results().At(0).Type(), old, a[1])
		*p = nv
		return nv, true
	}
	atomicSwap := func(g *Goroutine, c *frame, fn *ssa.Function, a []Value) (Value, bool) {
		g.visible()
		p := a[0].ptr()
		old := c.load(p)
		c.store(p, a[1])
		return old, true
	}
	atomicCAS := func(g *Goroutine, c *frame, fn *ssa.Function, a []Value) (Value, bool) {
		g.visible()
		p := a[0].ptr()
		old := c.load(p)
		if c.truth(c.equal(nil, old, a[1])) {
			c.store(p, a[2])
			return mkBool(true), true
		}
		return mkBool(false), true
	}
	for _, t := range []string{"Int32", "Int64", "Uint32", "Uint64", "Uintptr", "Pointer"} {
		m["sync/atomic.Load"+t] = atomicLoad
		m["sync/atomic.Store"+t] = atomicStore
		m["sync/atomic.Swap"+t] = atomicSwap
		m["sync/atomic.CompareAndSwap"+t] = atomicCAS
		if t != "Pointer" {
			m["sync/atomic.Add"+t] = atomicAdd
		}
	}
	for _, t := range []string{"32", "64", "", "Int32", "Int64", "Uint32", "Uint64", "Uintptr", "Uint", "Int", "p", "8", "Acq", "Acquintptr"} {
		m["internal/runtime/atomic.Load"+t] = atomicLoad
		m["internal/runtime/atomic.Store"+t] = atomicStore
	}
	// atomic.Value: keep the stored interface in a side table
	m["(*sync/atomic.Value).Load"] = func(g *Goroutine, c *frame, fn *ssa.Function, a []Value) (Value, bool) {
		st := side(g.p, a[0].ptr(), func() *Value { return &Value{K: KIface} })
		return *st, true
	}
	m["(*sync/atomic.Value).Store"] = func(g *Goroutine, c *frame, fn *ssa.Function, a []Value) (Value, bool) {
		st := side(g.p, a[0].ptr(), func() *Value { return &Value{K: KIface} })
		*st = a[1]
		return Value{}, true
	}
	m["(*sync/atomic.Value).CompareAndSwap"] = func(g *Goroutine, c *frame, fn *ssa.Function, a []Value) (Value, bool) {
		st := side(g.p, a[0].ptr(), func() *Value { return &Value{K: KIface} })
		if c.truth(c.equal(nil, *st, a[1])) {
			*st = a[2]
			return mkBool(true), true
		}
		return mkBool(false), true
	}
	m["(*sync/atomic.Value).Swap"] = func(g *Goroutine, c *frame, fn *ssa.Function, a []Value) (Value, bool) {
		st := side(g.p, a[0].ptr(), func() *Value { return &Value{K: KIface} })
		old := *st
		*st = a[1]
		return old, true
	}

	// ---- unique
	m["unique.Make"] = func(g *Goroutine, c *frame, fn *ssa.Function, a []Value) (Value, bool) {
		var sb strings.Builder
		sb.WriteString(fn.String())
		if !canonKey(a[0], &sb) {
			g.p.unsupported("unique.Make of symbolic value")
		}
		cell, ok := g.w.uniq[sb.String()]
		if !ok {
			cell = new(Value)
			*cell = copyVal(a[0])
			g.w.uniq[sb.String()] = cell
		}
		return mkAgg([]Value{mkPtr(cell)}), true
	}

	// ---- math
	m["math.Pow10"] = func(g *Goroutine, c *frame, fn *ssa.Function, a []Value) (Value, bool) {
		if a[0].R != nil {
			return Value{K: KFloat, W: 64, R: opaqueFloat{}}, true
		}
		n := g.forceInt(a[0])
		return Value{K: KFloat, W: 64, N: math.Float64bits(math.Pow10(int(n)))}, true
	}
	m["math.Float64bits"] = func(g *Goroutine, c *frame, fn *ssa.Function, a []Value) (Value, bool) {
		return mkInt(64, a[0].N), true
	}
	m["math.Float64frombits"] = func(g *Goroutine, c *frame, fn *ssa.Function, a []Value) (Value, bool) {
		return Value{K: KFloat, W: 64, N: uint64(g.forceInt(a[0]))}, true
	}

	// ---- crypto/rand
	randRead := func(g *Goroutine, c *frame, fn *ssa.Function, a []Value) (Value, bool) {
		b := a[len(a)-1].slice()
		for i := range b {
			b[i] = g.p.freshByte("rand")
		}
		return tup(mkInt(64, uint64(len(b))), nilErr()), true
	}
	m["(*crypto/rand.reader).Read"] = randRead
	m["crypto/rand.Read"] = randRead

	addTimeIntrinsics(m)
	addHpkeIntrinsics(m)
	addMiscIntrinsics(m)
	return m
}

func concreteStrFn(f func(string) string) Intrinsic {
	return func(g *Goroutine, c *frame, fn *ssa.Function, a []Value) (Value, bool) {
		if s, ok := concStr(a[0]); ok {
			return mkStr(f(s)), true
		}
		return Value{}, false
	}
}

// ---- errors

func (g *Goroutine) unwrap(c *frame, err Value) (single Value, multi []Value, ok bool) {
	ifc := err.iface()
	if ifc == nil {
		return
	}
	m := g.w.prog.findMethodCached(ifc.T, "Unwrap")
	if m == nil {
		return
	}
	res := m.Signature.Results()
	if res.Len() != 1 {
		return
	}
	r := g.callSSA(c, m, []Value{ifc.V}, nil)
	if _, isSlice := res.At(0).Type().Underlying().(*types.Slice); isSlice {
		return Value{}, r.slice(), true
	}
	return r, nil, true
}

func (g *Goroutine) errorsIs(c *frame, err, target Value, depth int) bool {
	if depth > 50 {
		g.p.unsupported("errors.Is chain too deep")
	}
	if err.iface() == nil || target.iface() == nil {
		return err.iface() == nil && target.iface() == nil
	}
	for {
		ifc := err.iface()
		if ifc == nil {
			return false
		}
		if types.Comparable(ifc.T) && types.Identical(ifc.T, target.iface().T) {
			if c.truth(c.equal(ifc.T, ifc.V, target.iface().V)) {
				return true
			}
		}
		if im := g.w.prog.findMethodCached(ifc.T, "Is"); im != nil && im.Signature.Params().Len() == 1 {
			r := g.callSSA(c, im, []Value{ifc.V, target}, nil)
			if r.K == KBool && c.truth(r) {
				return true
			}
		}
		single, multi, ok := g.unwrap(c, err)
		if !ok {
			return false
		}
		if multi != nil {
			for _, e := range multi {
				if g.errorsIs(c, e, target, depth+1) {
					return true
				}
			}
			return false
		}
		err = single
	}
}

func (g *Goroutine) errorsAs(c *frame, err, target Value, depth int) bool {
	tif := target.iface()
	if tif == nil {
		c.runtimePanic("errors: target cannot be nil")
	}
	pt, ok := tif.T.Underlying().(*types.Pointer)
	if !ok || tif.V.R == nil {
		c.runtimePanic("errors: target must be a non-nil pointer")
	}
	want := pt.Elem()
	for {
		ifc := err.iface()
		if ifc == nil {
			return false
		}
		match := false
		if it, isI := want.Underlying().(*types.Interface); isI {
			match = g.w.prog.implements(ifc.T, it)
			if match {
				*tif.V.ptr() = err
				return true
			}
		} else if types.Identical(ifc.T, want) {
			*tif.V.ptr() = copyVal(ifc.V)
			return true
		}
		single, multi, ok := g.unwrap(c, err)
		if !ok {
			return false
		}
		if multi != nil {
			for _, e := range multi {
				if g.errorsAs(c, e, target, depth+1) {
					return true
				}
			}
			return false
		}
		err = single
	}
}

func (prog *Program) findMethodCached(t types.Type, name string) *ssa.Function {
	key := methNameKey{t, name}
	if v, ok := prog.methCache.Load(key); ok {
		f, _ := v.(*ssa.Function)
		return f
	}
	f := prog.findMethod(t, name)
	prog.methCache.Store(key, f)
	return f
}

type methNameKey struct {
	t    types.Type
	name string
}

// ---- fmt

// toNative converts a concrete basic value for native formatting.
func toNative(v Value, t types.Type) (any, bool) {
	switch v.K {
	case KInt:
		if v.R != nil {
			return nil, false
		}
		if t != nil && isSigned(t) {
			return sext64(v.N, v.W), true
		}
		if t != nil {
			if b, ok := t.Underlying().(*types.Basic); ok {
				switch b.Kind() {
				case types.Uint8:
					return uint8(v.N), true
				case types.Uint16:
					return uint16(v.N), true
				case types.Uint32:
					return uint32(v.N), true
				}
			}
		}
		return v.N, true
	case KBool:
		if v.R != nil {
			return nil, false
		}
		return v.N != 0, true
	case KFloat:
		return math.Float64frombits(v.N), true
	case KStr:
		s, ok := concStr(v)
		return s, ok
	case KSlice:
		if t != nil {
			if st, ok := t.Underlying().(*types.Slice); ok {
				if b, ok := st.Elem().Underlying().(*types.Basic); ok && b.Kind() == types.Uint8 {
					out := make([]byte, len(v.slice()))
					for i, e := range v.slice() {
						if e.R != nil {
							return nil, false
						}
						out[i] = byte(e.N)
					}
					return out, true
				}
			}
		}
	}
	return nil, false
}

// fmtArg renders one operand for a verb.
func (g *Goroutine) fmtArg(c *frame, verb byte, spec string, arg Value, lenient bool) Value {
	ifc := arg.iface()
	if ifc == nil {
		if verb == 'v' || verb == 's' {
			return mkStr("<nil>")
		}
		return mkStr("%!" + string(verb) + "(<nil>)")
	}
	if verb == 'T' {
		return mkStr(ifc.T.String())
	}
	// error / Stringer
	if verb == 's' || verb == 'v' || verb == 'q' || verb == 'w' {
		for _, mn := range []string{"Error", "String"} {
			if m := g.w.prog.findMethodCached(ifc.T, mn); m != nil && m.Signature.Params().Len() == 0 && m.Signature.Results().Len() == 1 {
				if b, ok := m.Signature.Results().At(0).Type().Underlying().(*types.Basic); ok && b.Kind() == types.String {
					if ifc.V.K == KPtr && ifc.V.R == nil {
						return mkStr("<nil>")
					}
					r := g.callSSA(c, m, []Value{ifc.V}, nil)
					if verb == 'q' {
						if s, ok := concStr(r); ok {
							return mkStr(fmt.Sprintf("%q", s))
						}
					}
					return r
				}
			}
		}
	}
	if ifc.V.K == KStr && (verb == 's' || verb == 'v') && spec == "%"+string(verb) {
		return ifc.V
	}
	if n, ok := toNative(ifc.V, ifc.T); ok {
		if verb == 'w' {
			spec = strings.Replace(spec, "w", "v", 1)
		}
		return mkStr(fmt.Sprintf(spec, n))
	}
	if lenient {
		return mkStr("<sym>")
	}
	switch ifc.V.K {
	case KInt:
		if ifc.V.R != nil {
			cv := mkInt(ifc.V.W, g.p.concretize(ifc.V.term()))
			n, _ := toNative(cv, ifc.T)
			return mkStr(fmt.Sprintf(spec, n))
		}
	case KStr:
		if verb == 's' || verb == 'v' {
			return ifc.V
		}
	}
	return mkStr("<" + kindNames[ifc.V.K] + ">")
}

// format implements a subset of fmt's verbs; returns the string and the %w operands.
func (g *Goroutine) format(c *frame, fv Value, args []Value, lenient bool) (Value, []Value) {
	f, ok := concStr(fv)
	if !ok {
		g.p.unsupported("symbolic format string")
	}
	var out []Value
	var wrapped []Value
	concrete := true
	var sb strings.Builder
	flush := func() {
		if sb.Len() > 0 {
			out = append(out, strBytes(mkStr(sb.String()))...)
			sb.Reset()
		}
	}
	ai := 0
	for i := 0; i < len(f); i++ {
		if f[i] != '%' {
			sb.WriteByte(f[i])
			continue
		}
		j := i + 1
		for j < len(f) && strings.IndexByte("+-# 0123456789.", f[j]) >= 0 {
			j++
		}
		if j >= len(f) {
			sb.WriteString("%!(NOVERB)")
			break
		}
		verb := f[j]
		spec := f[i : j+1]
		i = j
		if verb == '%' {
			sb.WriteByte('%')
			continue
		}
		if ai >= len(args) {
			sb.WriteString("%!" + string(verb) + "(MISSING)")
			continue
		}
		arg := args[ai]
		ai++
		if verb == 'w' {
			wrapped = append(wrapped, arg)
		}
		r := g.fmtArg(c, verb, spec, arg, lenient)
		if s, ok := concStr(r); ok {
			sb.WriteString(s)
		} else {
			flush()
			concrete = false
			out = append(out, strBytes(r)...)
		}
	}
	if concrete {
		return mkStr(sb.String()), wrapped
	}
	flush()
	return mkStrBytes(out), wrapped
}

func (g *Goroutine) fmtErrorf(c *frame, fv Value, args []Value) Value {
	msg, wrapped := g.format(c, fv, args, true)
	prog := g.w.prog
	switch len(wrapped) {
	case 0:
		cell := &Value{K: KAgg, R: []Value{msg}}
		return mkIface(prog.errStringT, mkPtr(cell))
	case 1:
		t := types.NewPointer(prog.namedType("fmt", "wrapError"))
		cell := &Value{K: KAgg, R: []Value{msg, wrapped[0]}}
		return mkIface(t, mkPtr(cell))
	}
	t := types.NewPointer(prog.namedType("fmt", "wrapErrors"))
	errs := make([]Value, len(wrapped))
	copy(errs, wrapped)
	cell := &Value{K: KAgg, R: []Value{msg, mkSlice(errs)}}
	return mkIface(t, mkPtr(cell))
}

// ---- sort.Slice: insertion sort exactly as the runtime does for n <= 12,
// (for larger n the permutation among equal keys is implementation-defined;
// we still use insertion sort and flag it).
func (g *Goroutine) sortSlice(c *frame, x Value, less Value, stable bool) {
	ifc := x.iface()
	if ifc == nil {
		return
	}
	s := ifc.V.slice()
	n := len(s)
	if n > 12 && !stable {
		g.p.note("sort.Slice with more than 12 elements: pdqsort order among equal keys not modelled")
	}
	lessFn := func(i, j int) bool {
		r := g.call(c, less, []Value{mkInt(64, uint64(i)), mkInt(64, uint64(j))})
		return c.truth(r)
	}
	for i := 1; i < n; i++ {
		for j := i; j > 0 && lessFn(j, j-1); j-- {
			if r := g.p.race; r != nil {
				r.accessDeep(g, &s[j], true, "sort.Slice(swap)")
				r.accessDeep(g, &s[j-1], true, "sort.Slice(swap)")
			}
			s[j], s[j-1] = s[j-1], s[j]
		}
	}
}

func addMiscIntrinsics(m map[string]Intrinsic) {
	// crypto/tls's own HPKE sender (real X25519/HKDF/AEAD) is not encodable: the
	// client handshake is cut here with an error (what precedes it - parsing and
	// choosing the ECH config - is what the harness observes).
	m["crypto/internal/hpke.SetupReceipient"] = func(g *Goroutine, c *frame, fn *ssa.Function, a []Value) (Value, bool) {
		return tup(Value{K: KPtr}, g.w.prog.newError("verif: HPKE receiver not modelled")), true
	}
	// X25519 private key import: the scalar multiplication that derives the public
	// key is not encodable; the key keeps its bytes and gets an opaque public key.
	m["(*crypto/ecdh.x25519Curve).NewPrivateKey"] = func(g *Goroutine, c *frame, fn *ssa.Function, a []Value) (Value, bool) {
		prog := g.w.prog
		key := a[1].slice()
		if len(key) != 32 {
			return tup(Value{K: KPtr}, prog.newError("crypto/ecdh: invalid private key size")), true
		}
		privT := prog.namedType("crypto/ecdh", "PrivateKey")
		pubT := prog.namedType("crypto/ecdh", "PublicKey")
		curveIface := mkIface(fn.Signature.Recv().Type(), a[0])
		pub := zero(pubT)
		setField(pub, pubT, "curve", curveIface)
		setField(pub, pubT, "publicKey", mkSlice(g.p.freshBytes(32, "pk")))
		pubCell := new(Value)
		*pubCell = pub
		priv := zero(privT)
		setField(priv, privT, "curve", curveIface)
		setField(priv, privT, "privateKey", mkSlice(cloneVals(key)))
		setField(priv, privT, "publicKey", mkPtr(pubCell))
		privCell := new(Value)
		*privCell = priv
		return tup(mkPtr(privCell), nilErr()), true
	}
	m["crypto/internal/hpke.SetupSender"] = func(g *Goroutine, c *frame, fn *ssa.Function, a []Value) (Value, bool) {
		return tup(Value{K: KSlice}, Value{K: KPtr}, g.w.prog.newError("verif: HPKE sender not modelled")), true
	}
	// net/http connection machinery: (*http.Transport).RoundTrip is modelled as
	// "dial the origin through the transport's own DialTLSContext / DialContext
	// with the request context and the canonical address of URL.Host; a dial
	// error is the result" (connections themselves are outside every property).
	m["(*net/http.Transport).RoundTrip"] = func(g *Goroutine, c *frame, fn *ssa.Function, a []Value) (Value, bool) {
		return g.httpRoundTrip(c, fn, a[0], a[1]), true
	}
	// X25519 key generation: an opaque key with fresh symbolic public and private bytes.
	m["(*crypto/ecdh.x25519Curve).GenerateKey"] = func(g *Goroutine, c *frame, fn *ssa.Function, a []Value) (Value, bool) {
		prog := g.w.prog
		privT := prog.namedType("crypto/ecdh", "PrivateKey")
		pubT := prog.namedType("crypto/ecdh", "PublicKey")
		curveT := fn.Signature.Recv().Type()
		curveIface := mkIface(curveT, a[0])
		pub := zero(pubT)
		setField(pub, pubT, "curve", curveIface)
		setField(pub, pubT, "publicKey", mkSlice(g.p.freshBytes(32, "pk")))
		pubCell := new(Value)
		*pubCell = pub
		priv := zero(privT)
		setField(priv, privT, "curve", curveIface)
		setField(priv, privT, "privateKey", mkSlice(g.p.freshBytes(32, "sk")))
		setField(priv, privT, "publicKey", mkPtr(pubCell))
		privCell := new(Value)
		*privCell = priv
		return tup(mkPtr(privCell), nilErr()), true
	}
	// unsafe helpers used by strings.Builder etc. are builtins (see callUnsafeBuiltin).
	m["strings.(*Builder).copyCheck"] = noop
	m["(*strings.Builder).copyCheck"] = noop
	m["internal/abi.NoEscape"] = func(g *Goroutine, c *frame, fn *ssa.Function, a []Value) (Value, bool) {
		return a[0], true
	}
	m["internal/abi.Escape"] = func(g *Goroutine, c *frame, fn *ssa.Function, a []Value) (Value, bool) {
		return a[0], true
	}
	m["context.WithValue"] = func(g *Goroutine, c *frame, fn *ssa.Function, a []Value) (Value, bool) {
		if a[0].iface() == nil {
			panic(&goPanic{val: g.w.prog.newError("cannot create context from nil parent"), site: c.stableSite(), msg: "cannot create context from nil parent"})
		}
		t := g.w.prog.namedType("context", "valueCtx")
		cell := &Value{K: KAgg, R: []Value{a[0], a[1], a[2]}}
		return mkIface(types.NewPointer(t), mkPtr(cell)), true
	}
	m["context.contextName"] = func(g *Goroutine, c *frame, fn *ssa.Function, a []Value) (Value, bool) {
		return mkStr("ctx"), true
	}
}

// unsafe builtins (ssa.Builtin with names Add, Slice, SliceData, String, StringData)
func (g *Goroutine) callUnsafeBuiltin(fr *frame, name string, args []Value) (Value, bool) {
	switch name {
	case "SliceData":
		s := args[0].slice()
		if cap(s) == 0 {
			return Value{K: KPtr}, true
		}
		return mkPtr(&s[:1][0]), true
	case "StringData":
		b := strBytes(args[0])
		if len(b) == 0 {
			return Value{K: KPtr}, true
		}
		cp := make([]Value, len(b))
		copy(cp, b)
		return mkPtr(&cp[0]), true
	case "String":
		n := int(g.forceInt(args[1]))
		if n == 0 || args[0].R == nil {
			return mkStr(""), true
		}
		cells := unsafe.Slice(args[0].ptr(), n)
		return mkStrBytes(cells), true
	case "Slice":
		n := int(g.forceInt(args[1]))
		if args[0].R == nil {
			return Value{K: KSlice}, true
		}
		cells := unsafe.Slice(args[0].ptr(), n)
		return mkSlice(cells), true
	case "Add":
		if args[0].R == nil {
			g.p.unsupported("unsafe.Add on nil")
		}
		n := int(g.forceInt(args[1]))
		base := args[0].ptr()
		np := (*Value)(unsafe.Add(unsafe.Pointer(base), n*int(unsafe.Sizeof(Value{}))))
		return mkPtr(np), true
	}
	return Value{}, false
}

func setField(v Value, t types.Type, name string, x Value) {
	st := t.Underlying().(*types.Struct)
	for i := 0; i < st.NumFields(); i++ {
		if st.Field(i).Name() == name {
			v.agg()[i] = x
			return
		}
	}
	panic("engine: no field " + name + " in " + t.String())
}

func fieldByName(v Value, t types.Type, name string) Value {
	st := t.Underlying().(*types.Struct)
	for i := 0; i < st.NumFields(); i++ {
		if st.Field(i).Name() == name {
			return v.agg()[i]
		}
	}
	panic("engine: no field " + name + " in " + t.String())
}

func (g *Goroutine) httpRoundTrip(c *frame, fn *ssa.Function, tr, req Value) Value {
	prog := g.w.prog
	trT := prog.namedType("net/http", "Transport")
	reqT := prog.namedType("net/http", "Request")
	urlT := prog.namedType("net/url", "URL")
	if tr.R == nil || req.R == nil {
		c.runtimePanic("nil transport or request")
	}
	rv := *req.ptr()
	u := fieldByName(rv, reqT, "URL")
	if u.R == nil {
		return tup(Value{K: KPtr}, prog.newError("http: nil Request.URL"))
	}
	uv := *u.ptr()
	scheme, ok1 := concStr(fieldByName(uv, urlT, "Scheme"))
	host := fieldByName(uv, urlT, "Host")
	if !ok1 {
		g.p.unsupported("http RoundTrip with symbolic scheme")
	}
	ctx := fieldByName(rv, reqT, "ctx")
	if ctx.R == nil {
		ctx = g.call(c, Value{K: KFunc, R: prog.function("context", "Background")}, nil)
	}
	port := "443"
	dialName := "DialTLSContext"
	switch scheme {
	case "http":
		port = "80"
		dialName = "DialContext"
	case "https":
	default:
		return tup(Value{K: KPtr}, prog.newError("unsupported protocol scheme"))
	}
	hs, hok := concStr(host)
	addr := host
	if hok {
		if i := strings.LastIndexByte(hs, ':'); i < 0 || strings.HasSuffix(hs, "]") {
			addr = mkStr(hs + ":" + port)
		}
	} else {
		addr = mkStrBytes(append(append([]Value{}, strBytes(host)...), strBytes(mkStr(":" + port))...))
	}
	dial := fieldByName(*tr.ptr(), trT, dialName)
	if dial.R == nil {
		return tup(Value{K: KPtr}, prog.newError("http: real network dialing is outside the model"))
	}
	res := g.call(c, dial, []Value{ctx, mkStr("tcp"), addr})
	conn, err := res.agg()[0], res.agg()[1]
	if err.R != nil {
		return tup(Value{K: KPtr}, err)
	}
	_ = conn
	return tup(Value{K: KPtr}, prog.newError("http: connection established; protocol exchange is outside the model"))
}
